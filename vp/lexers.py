"""Small, conservative SQL tokenisers for C14 (one rule table per dialect).

Each tokeniser follows the vendor's *lexical* rules only (no grammar):

* ``pg``       PostgreSQL, standard_conforming_strings=on: '...' with '' doubling (backslash is an ordinary
               character), E'...' with backslash escapes, "..." identifiers with "" doubling, ``--`` to end of
               line, nested ``/* */``, ``$tag$...$tag$`` dollar quoting.
* ``sqlite``   SQLite: '...' with '' doubling, identifiers "...", `...` (doubling) and [...], ``--`` and
               ``/* */`` (not nested).
* ``mysql``    MySQL, default sql_mode: '...' and "..." strings with backslash escapes *and* quote doubling,
               `...` identifiers with `` doubling (backslash ordinary), comments ``#``, ``--`` followed by
               whitespace/control/end, ``/* */`` (not nested).
* ``bigquery`` GoogleSQL: '...' and "..." strings with backslash escapes, *no* quote doubling, no raw
               newline/CR inside; triple-quoted '''...''' and \"\"\"...\"\"\"; r/b/rb/br prefixes; `...`
               identifiers with the same escapes, not empty; comments ``#``, ``--``, ``/* */`` (not nested).
* ``spark``    Spark SQL 4.x defaults (escapedStringLiterals=false): '...' and "..." strings with backslash
               escapes and quote doubling, r'...' raw strings, `...` identifiers with `` doubling, ``--`` to end
               of line (a backslash directly before the newline continues the comment), nested ``/* */``.

``tokenize(sql, dialect)`` returns a list of ``Tok(kind, value, text)``; kinds: ``str`` (value = decoded
string), ``id`` (value = decoded quoted identifier), ``pstr`` (prefixed string such as r'..', value None),
``word``, ``num``, ``punct`` (value = text, words upper-cased) and ``comment``. It raises ``LexError`` for
text that is not well-formed (unterminated string / identifier / comment, invalid escape).
"""

from __future__ import annotations

from typing import List, NamedTuple, Optional


class LexError(Exception):
    """The text is not a well-formed token sequence in the dialect."""


class Tok(NamedTuple):
    kind: str
    value: Optional[str]
    text: str


DIALECTS = ("pg", "sqlite", "mysql", "bigquery", "spark")

_RULES = {
    "pg": dict(
        str_quotes="'", id_quotes='"', str_backslash=False, str_doubling=True, str_newline=True,
        id_backslash=False, id_doubling=True, id_empty_ok=False, triple=False, hash_comment=False,
        dash_needs_space=False, nested_block=True, dash_continuation=False, dash_ends="\n\r",
        prefixes={"E": "escape", "B": "plain", "X": "plain", "N": "plain"}, dollar=True, bracket_id=False,
    ),
    "sqlite": dict(
        str_quotes="'", id_quotes='"`', str_backslash=False, str_doubling=True, str_newline=True,
        id_backslash=False, id_doubling=True, id_empty_ok=True, triple=False, hash_comment=False,
        dash_needs_space=False, nested_block=False, dash_continuation=False, dash_ends="\n",
        prefixes={"X": "plain"}, dollar=False, bracket_id=True,
    ),
    "mysql": dict(
        str_quotes="'\"", id_quotes="`", str_backslash=True, str_doubling=True, str_newline=True,
        id_backslash=False, id_doubling=True, id_empty_ok=True, triple=False, hash_comment=True,
        dash_needs_space=True, nested_block=False, dash_continuation=False, dash_ends="\n",
        prefixes={"N": "escape", "X": "plain", "B": "plain"}, dollar=False, bracket_id=False,
    ),
    "bigquery": dict(
        str_quotes="'\"", id_quotes="`", str_backslash=True, str_doubling=False, str_newline=False,
        id_backslash=True, id_doubling=False, id_empty_ok=False, triple=True, hash_comment=True,
        dash_needs_space=False, nested_block=False, dash_continuation=False, dash_ends="\n\r",
        prefixes={"R": "rawbs", "B": "escape", "RB": "rawbs", "BR": "rawbs"}, dollar=False, bracket_id=False,
    ),
    "spark": dict(
        str_quotes="'\"", id_quotes="`", str_backslash=True, str_doubling=True, str_newline=True,
        id_backslash=False, id_doubling=True, id_empty_ok=True, triple=False, hash_comment=False,
        dash_needs_space=False, nested_block=True, dash_continuation=True, dash_ends="\n\r",
        prefixes={"R": "raw"}, dollar=False, bracket_id=False,
    ),
}

_HEX = "0123456789abcdefABCDEF"
_OCT = "01234567"


def _hexrun(s: str, i: int, n: int) -> Optional[int]:
    """Value of exactly n hex digits at s[i:], else None."""
    h = s[i : i + n]
    if len(h) != n or any(c not in _HEX for c in h):
        return None
    return int(h, 16)


def _escape(dialect: str, s: str, i: int):
    """Decode the escape whose backslash is at s[i]; returns (decoded text, next index)."""
    if i + 1 >= len(s):
        raise LexError("backslash at end of text")
    c = s[i + 1]
    if dialect == "mysql" or dialect == "pg_e":
        if dialect == "pg_e":
            simple = {"b": "\b", "f": "\f", "n": "\n", "r": "\r", "t": "\t"}
            if c in simple:
                return simple[c], i + 2
            if c in _OCT:
                j = i + 1
                while j < len(s) and j < i + 4 and s[j] in _OCT:
                    j += 1
                return chr(int(s[i + 1 : j], 8) & 0xFF), j
            if c == "x" and _hexrun(s, i + 2, 1) is not None:
                j = i + 2
                while j < len(s) and j < i + 4 and s[j] in _HEX:
                    j += 1
                return chr(int(s[i + 2 : j], 16)), j
            if c == "u" and _hexrun(s, i + 2, 4) is not None:
                return chr(_hexrun(s, i + 2, 4)), i + 6
            if c == "U" and _hexrun(s, i + 2, 8) is not None:
                return chr(_hexrun(s, i + 2, 8)), i + 10
            return c, i + 2
        simple = {"0": "\0", "b": "\b", "n": "\n", "r": "\r", "t": "\t", "Z": "\x1a", "%": "\\%", "_": "\\_"}
        return simple.get(c, c), i + 2
    if dialect == "spark":
        if c == "u" and _hexrun(s, i + 2, 4) is not None:
            return chr(_hexrun(s, i + 2, 4)), i + 6
        if c == "U" and _hexrun(s, i + 2, 8) is not None:
            v = _hexrun(s, i + 2, 8)
            if v > 0x10FFFF:
                raise LexError("code point out of range")
            return chr(v), i + 10
        o = s[i + 1 : i + 4]
        if len(o) == 3 and o[0] in "01" and o[1] in _OCT and o[2] in _OCT:
            return chr(int(o, 8)), i + 4
        simple = {"0": "\0", "b": "\b", "n": "\n", "r": "\r", "t": "\t", "Z": "\x1a", "%": "\\%", "_": "\\_"}
        return simple.get(c, c), i + 2
    if dialect == "bigquery":
        simple = {
            "a": "\a", "b": "\b", "f": "\f", "n": "\n", "r": "\r", "t": "\t", "v": "\v",
            "\\": "\\", "?": "?", '"': '"', "'": "'", "`": "`",
        }
        if c in simple:
            return simple[c], i + 2
        if c in _OCT:
            o = s[i + 1 : i + 4]
            if len(o) == 3 and all(ch in _OCT for ch in o) and int(o, 8) <= 0xFF:
                return chr(int(o, 8)), i + 4
            raise LexError("invalid octal escape")
        if c in "xX":
            v = _hexrun(s, i + 2, 2)
            if v is None:
                raise LexError("invalid \\x escape")
            return chr(v), i + 4
        if c == "u":
            v = _hexrun(s, i + 2, 4)
            if v is None or 0xD800 <= v <= 0xDFFF:
                raise LexError("invalid \\u escape")
            return chr(v), i + 6
        if c == "U":
            v = _hexrun(s, i + 2, 8)
            if v is None or v > 0x10FFFF or 0xD800 <= v <= 0xDFFF:
                raise LexError("invalid \\U escape")
            return chr(v), i + 10
        raise LexError(f"invalid escape \\{c}")
    raise AssertionError(dialect)


def _quoted(dialect, s, i, q, *, backslash, doubling, newline_ok, what, escape_dialect=None, raw_backslash=False):
    """Read a quoted token starting at the quote s[i] == q; returns (decoded, next index)."""
    out = []
    j = i + 1
    n = len(s)
    while True:
        if j >= n:
            raise LexError(f"unterminated {what} starting at offset {i}")
        c = s[j]
        if c == q:
            if doubling and j + 1 < n and s[j + 1] == q:
                out.append(q)
                j += 2
                continue
            return "".join(out), j + 1
        if c == "\\" and raw_backslash:
            # raw string where backslash still protects the next character (BigQuery r'..')
            if j + 1 >= n:
                raise LexError(f"unterminated {what} starting at offset {i}")
            out.append(s[j : j + 2])
            j += 2
            continue
        if c == "\\" and backslash:
            txt, j = _escape(escape_dialect or dialect, s, j)
            out.append(txt)
            continue
        if (c == "\n" or c == "\r") and not newline_ok:
            raise LexError(f"raw line break inside {what} starting at offset {i}")
        out.append(c)
        j += 1


def _triple(s, i, q, *, backslash):
    """BigQuery triple-quoted string starting at s[i:i+3] == q*3."""
    out = []
    j = i + 3
    n = len(s)
    while True:
        if j >= n:
            raise LexError(f"unterminated triple-quoted string starting at offset {i}")
        if s.startswith(q * 3, j):
            return "".join(out), j + 3
        c = s[j]
        if c == "\\":
            if backslash:
                txt, j = _escape("bigquery", s, j)
                out.append(txt)
            else:
                if j + 1 >= n:
                    raise LexError("unterminated triple-quoted string")
                out.append(s[j : j + 2])
                j += 2
            continue
        out.append(c)
        j += 1


def _is_word_start(c):
    return c.isalpha() or c == "_"


def _is_word_char(c):
    return c.isalnum() or c == "_" or c == "$"


def tokenize(sql: str, dialect: str) -> List[Tok]:
    r = _RULES[dialect]
    toks: List[Tok] = []
    i = 0
    n = len(sql)
    while i < n:
        c = sql[i]
        if c.isspace():
            i += 1
            continue
        # ---- comments
        if c == "-" and sql.startswith("--", i):
            is_comment = True
            if r["dash_needs_space"]:
                nxt = sql[i + 2 : i + 3]
                is_comment = nxt == "" or nxt.isspace() or ord(nxt) < 32
            if is_comment:
                j = i + 2
                while j < n:
                    if r["dash_continuation"] and sql[j] == "\\" and j + 1 < n and sql[j + 1] == "\n":
                        j += 2
                        continue
                    if sql[j] in r["dash_ends"]:
                        break
                    j += 1
                toks.append(Tok("comment", None, sql[i:j]))
                i = j
                continue
        if c == "#" and r["hash_comment"]:
            j = i
            while j < n and sql[j] not in "\n\r":
                j += 1
            toks.append(Tok("comment", None, sql[i:j]))
            i = j
            continue
        if c == "/" and sql.startswith("/*", i):
            depth = 1
            j = i + 2
            while depth > 0:
                if j >= n:
                    if dialect == "sqlite":
                        break  # SQLite lets a block comment run to end of input
                    raise LexError(f"unterminated block comment starting at offset {i}")
                if sql.startswith("*/", j):
                    depth -= 1
                    j += 2
                elif r["nested_block"] and sql.startswith("/*", j):
                    depth += 1
                    j += 2
                else:
                    j += 1
            toks.append(Tok("comment", None, sql[i:j]))
            i = j
            continue
        # ---- strings
        if c in r["str_quotes"]:
            if r["triple"] and sql.startswith(c * 3, i):
                v, j = _triple(sql, i, c, backslash=True)
            else:
                v, j = _quoted(
                    dialect, sql, i, c, backslash=r["str_backslash"], doubling=r["str_doubling"],
                    newline_ok=r["str_newline"], what="string literal",
                )
            toks.append(Tok("str", v, sql[i:j]))
            i = j
            continue
        # ---- quoted identifiers
        if c in r["id_quotes"]:
            v, j = _quoted(
                dialect, sql, i, c, backslash=r["id_backslash"], doubling=r["id_doubling"],
                newline_ok=not r["id_backslash"], what="quoted identifier",
            )
            if v == "" and not r["id_empty_ok"]:
                raise LexError(f"empty quoted identifier at offset {i}")
            toks.append(Tok("id", v, sql[i:j]))
            i = j
            continue
        if c == "[" and r["bracket_id"]:
            j = sql.find("]", i + 1)
            if j < 0:
                raise LexError(f"unterminated [identifier] starting at offset {i}")
            toks.append(Tok("id", sql[i + 1 : j], sql[i : j + 1]))
            i = j + 1
            continue
        # ---- dollar quoting (PostgreSQL)
        if c == "$" and r["dollar"]:
            j = i + 1
            while j < n and (sql[j].isalnum() or sql[j] == "_"):
                j += 1
            if j < n and sql[j] == "$" and not sql[i + 1 : i + 2].isdigit():
                delim = sql[i : j + 1]
                k = sql.find(delim, j + 1)
                if k < 0:
                    raise LexError(f"unterminated dollar-quoted string starting at offset {i}")
                toks.append(Tok("str", sql[j + 1 : k], sql[i : k + len(delim)]))
                i = k + len(delim)
                continue
        # ---- words (and string prefixes)
        if _is_word_start(c):
            j = i
            while j < n and _is_word_char(sql[j]):
                j += 1
            w = sql[i:j]
            mode = r["prefixes"].get(w.upper())
            if mode is not None and j < n and sql[j] in r["str_quotes"]:
                q = sql[j]
                if r["triple"] and sql.startswith(q * 3, j):
                    _, k = _triple(sql, j, q, backslash=(mode == "escape"))
                elif mode == "escape":
                    _, k = _quoted(
                        dialect, sql, j, q, backslash=True, doubling=r["str_doubling"], newline_ok=r["str_newline"],
                        what="string literal", escape_dialect="pg_e" if dialect == "pg" else None,
                    )
                elif mode == "rawbs":
                    _, k = _quoted(
                        dialect, sql, j, q, backslash=False, doubling=False, newline_ok=False,
                        what="string literal", raw_backslash=True,
                    )
                elif mode == "raw":
                    _, k = _quoted(dialect, sql, j, q, backslash=False, doubling=False, newline_ok=True, what="string literal")
                else:  # plain
                    _, k = _quoted(dialect, sql, j, q, backslash=False, doubling=True, newline_ok=True, what="string literal")
                toks.append(Tok("pstr", None, sql[i:k]))
                i = k
                continue
            toks.append(Tok("word", w.upper(), w))
            i = j
            continue
        # ---- numbers
        if c.isdigit():
            j = i
            while j < n and (sql[j].isalnum() or sql[j] == "."):
                j += 1
                if j < n and sql[j] in "+-" and sql[j - 1] in "eE" and sql[j + 1 : j + 2].isdigit() and sql[i : j - 1].replace(".", "").isdigit():
                    j += 1
            toks.append(Tok("num", sql[i:j], sql[i:j]))
            i = j
            continue
        toks.append(Tok("punct", c, c))
        i += 1
    return toks


def skeleton(toks: List[Tok]) -> List[str]:
    """Token-kind skeleton: comments dropped, contents of strings / quoted identifiers ignored."""
    out = []
    for t in toks:
        if t.kind == "comment":
            continue
        if t.kind in ("str", "id", "pstr"):
            out.append("<" + t.kind + ">")
        else:
            out.append(t.value)
    return out


def significant(toks: List[Tok]) -> List[Tok]:
    return [t for t in toks if t.kind != "comment"]


# ---- self test ------------------------------------------------------------------------------------

_S, _I, _W, _P, _N = "str", "id", "word", "punct", "num"

# (dialect, sql, expected) ; expected = list of (kind, value) without comments, or the string "error"
SAMPLES = [
    # PostgreSQL
    ("pg", "SELECT 'a''b' AS \"c\"\"d\"", [(_W, "SELECT"), (_S, "a'b"), (_W, "AS"), (_I, 'c"d')]),
    ("pg", "SELECT 'a\\' , 'b'", [(_W, "SELECT"), (_S, "a\\"), (_P, ","), (_S, "b")]),
    ("pg", "SELECT 'a\nb' -- x ' y\n, 1", [(_W, "SELECT"), (_S, "a\nb"), (_P, ","), (_N, "1")]),
    ("pg", "SELECT 1 -- x\r, 2", [(_W, "SELECT"), (_N, "1"), (_P, ","), (_N, "2")]),
    ("pg", "SELECT /* a /* b */ ' */ 1", [(_W, "SELECT"), (_N, "1")]),
    ("pg", "SELECT /* a /* b */ 1", "error"),
    ("pg", "SELECT 'abc", "error"),
    ("pg", 'SELECT "abc', "error"),
    ("pg", 'SELECT ""', "error"),
    ("pg", "SELECT '--' , '/*'", [(_W, "SELECT"), (_S, "--"), (_P, ","), (_S, "/*")]),
    ("pg", "SELECT E'a\\'b', $x$it's$x$", [(_W, "SELECT"), ("pstr", None), (_P, ","), (_S, "it's")]),
    ("pg", "SELECT `a`", [(_W, "SELECT"), (_P, "`"), (_W, "A"), (_P, "`")]),
    ("pg", "SELECT 'a\"b', \"a'b\"", [(_W, "SELECT"), (_S, 'a"b'), (_P, ","), (_I, "a'b")]),
    # SQLite
    ("sqlite", "SELECT 'a''b\\' , \"x\"\"y\", `p``q`, [r s]", [(_W, "SELECT"), (_S, "a'b\\"), (_P, ","), (_I, 'x"y'), (_P, ","), (_I, "p`q"), (_P, ","), (_I, "r s")]),
    ("sqlite", "SELECT 1 /* a /* b */ , 2 -- z", [(_W, "SELECT"), (_N, "1"), (_P, ","), (_N, "2")]),
    ("sqlite", "SELECT 'a", "error"),
    # MySQL
    ("mysql", "SELECT 'a\\'b' , 'c''d' , \"e\\\"f\"", [(_W, "SELECT"), (_S, "a'b"), (_P, ","), (_S, "c'd"), (_P, ","), (_S, 'e"f')]),
    ("mysql", "SELECT 'a\\'", "error"),
    ("mysql", "SELECT 'a\\\\' , 'x\\ny\\%z\\qw'", [(_W, "SELECT"), (_S, "a\\"), (_P, ","), (_S, "x\ny\\%zqw")]),
    ("mysql", "SELECT `a``b\\` , 1", [(_W, "SELECT"), (_I, "a`b\\"), (_P, ","), (_N, "1")]),
    ("mysql", "SELECT 1 --2", [(_W, "SELECT"), (_N, "1"), (_P, "-"), (_P, "-"), (_N, "2")]),
    ("mysql", "SELECT 1 -- 2\n, 3 # x ' \n, 4 /* ' */", [(_W, "SELECT"), (_N, "1"), (_P, ","), (_N, "3"), (_P, ","), (_N, "4")]),
    ("mysql", "SELECT 1 /* a /* b */ , 2", [(_W, "SELECT"), (_N, "1"), (_P, ","), (_N, "2")]),
    ("mysql", "SELECT 1 /* a", "error"),
    ("mysql", "SELECT `a", "error"),
    # BigQuery
    ("bigquery", "SELECT \"a\\\"b\" , 'c\"d' , \"e'f\"", [(_W, "SELECT"), (_S, 'a"b'), (_P, ","), (_S, 'c"d'), (_P, ","), (_S, "e'f")]),
    ("bigquery", 'SELECT "a""b"', [(_W, "SELECT"), (_S, "a"), (_S, "b")]),
    ("bigquery", 'SELECT "a\\"', "error"),
    ("bigquery", 'SELECT "a\nb"', "error"),
    ("bigquery", 'SELECT "a\\qb"', "error"),
    ("bigquery", 'SELECT "a\\\\b\\n\\x41\\101\\u00e9"', [(_W, "SELECT"), (_S, "a\\b\nAAé")]),
    ("bigquery", 'SELECT """a"b\nc""" , 1', [(_W, "SELECT"), (_S, 'a"b\nc'), (_P, ","), (_N, "1")]),
    ("bigquery", 'SELECT """a" , 1', "error"),
    ("bigquery", "SELECT `a b` , `c\\`d`", [(_W, "SELECT"), (_I, "a b"), (_P, ","), (_I, "c`d")]),
    ("bigquery", "SELECT `a\\`", "error"),
    ("bigquery", "SELECT ``", "error"),
    ("bigquery", "SELECT 1 # x '\n, 2 -- y \"\n, 3 /* ` */", [(_W, "SELECT"), (_N, "1"), (_P, ","), (_N, "2"), (_P, ","), (_N, "3")]),
    ("bigquery", "SELECT r'a\\' , 1", "error"),
    ("bigquery", "SELECT r'a\\b' , 1", [(_W, "SELECT"), ("pstr", None), (_P, ","), (_N, "1")]),
    # Spark (every sample below was also run on Spark 4.2 while this module was written)
    ("spark", 'SELECT "a""b" , \'c\'\'d\'', [(_W, "SELECT"), (_S, 'a"b'), (_P, ","), (_S, "c'd")]),
    ("spark", 'SELECT "a\\\\b" , "a\\qb" , "a\\%b" , "a\\101b" , "a\\u0041b"', [(_W, "SELECT"), (_S, "a\\b"), (_P, ","), (_S, "aqb"), (_P, ","), (_S, "a\\%b"), (_P, ","), (_S, "aAb"), (_P, ","), (_S, "aAb")]),
    ("spark", 'SELECT "\\400" , "\\08" , "\\x41" , "a\\Zb"', [(_W, "SELECT"), (_S, "400"), (_P, ","), (_S, "\x008"), (_P, ","), (_S, "x41"), (_P, ","), (_S, "a\x1ab")]),
    ("spark", 'SELECT "a\nb" , "a\\\nb"', [(_W, "SELECT"), (_S, "a\nb"), (_P, ","), (_S, "a\nb")]),
    ("spark", 'SELECT "a\\"', "error"),
    ("spark", 'SELECT "a" -- c\\\n , "b"', [(_W, "SELECT"), (_S, "a")]),
    ("spark", "SELECT 1 /* a /* b */ c */ , `a``b\\`", [(_W, "SELECT"), (_N, "1"), (_P, ","), (_I, "a`b\\")]),
    ("spark", "SELECT 1 /* a /* b */", "error"),
    ("spark", "SELECT r'a\\' , 1 # 2", [(_W, "SELECT"), ("pstr", None), (_P, ","), (_N, "1"), (_P, "#"), (_N, "2")]),
]


def self_test() -> List[str]:
    """Run the hand-written samples; returns a list of problem descriptions (empty = all good)."""
    problems = []
    for dialect, sql, expected in SAMPLES:
        try:
            got = [(t.kind, t.value) for t in significant(tokenize(sql, dialect))]
        except LexError as e:
            got = "error"
            if expected != "error":
                problems.append(f"{dialect}: {sql!r}: unexpected LexError {e}")
            continue
        if expected == "error":
            problems.append(f"{dialect}: {sql!r}: expected LexError, got {got!r}")
        elif got != expected:
            problems.append(f"{dialect}: {sql!r}: got {got!r}, expected {expected!r}")
    return problems
