"""CLI:  python -m vp.run <Cxx> [--tier quick|thorough] [--replay path] [--shard i --nshards n]

VERIF_SEED (default 1) and VERIF_TIER are read from the environment.
"""

from __future__ import annotations

import argparse
import importlib
import json
import os
import subprocess
import sys
import time
import warnings

from . import common


def _load(pid: str):
    return importlib.import_module(f"vp.checks.{pid.lower()}")


def run_single(pid, tier, seed, shard, nshards, part_path=None) -> int:
    mod = _load(pid)
    ctx = common.Ctx(pid, tier, seed, shard, nshards)
    mod.run(ctx)
    from . import engines

    if engines.FLATTENER_RETRIES[0]:
        # statements re-run with AS MATERIALIZED because of the SQLite 3.39-3.40 flattener defect (see vp/engines.py)
        ctx.ev.count("sqlite_flattener_defect_retries", engines.FLATTENER_RETRIES[0])
    if part_path is not None:
        part = ctx.ev.to_part()
        part["violation_lines"] = ctx.violation_lines
        part["known_lines"] = ctx.known_lines
        with open(part_path, "w") as f:
            f.write(common.canon(part))
        return 1 if ctx.violation_lines else 0
    ctx.ev.write()
    return common.finish(ctx)


def run_sharded(pid, tier, seed, nshards) -> int:
    t0 = time.time()
    parts_dir = os.path.join(common.EVIDENCE_DIR, ".parts")
    os.makedirs(parts_dir, exist_ok=True)
    procs = []
    for i in range(nshards):
        pp = os.path.join(parts_dir, f"{pid}.{i}.json")
        if os.path.exists(pp):
            os.remove(pp)
        cmd = [
            sys.executable,
            "-m",
            "vp.run",
            pid,
            "--tier",
            tier,
            "--shard",
            str(i),
            "--nshards",
            str(nshards),
            "--part",
            pp,
        ]
        env = dict(os.environ)
        env["VERIF_SEED"] = str(seed)
        procs.append((i, pp, subprocess.Popen(cmd, cwd=common.ROOT, env=env, stdout=subprocess.PIPE, stderr=subprocess.PIPE)))
    ctx = common.Ctx(pid, tier, seed, 0, 1)
    harness_error = False
    for i, pp, p in procs:
        out, err = p.communicate()
        if p.returncode not in (0, 1) or not os.path.exists(pp):
            harness_error = True
            sys.stderr.write(f"[shard {i}] exit {p.returncode}\n{err.decode(errors='replace')[-4000:]}\n")
            continue
        if err:
            sys.stderr.write(err.decode(errors="replace")[-2000:])
        with open(pp) as f:
            part = json.load(f)
        ctx.ev.merge_part(part)
        for line in part["violation_lines"]:
            if line not in ctx.violation_lines:
                ctx.violation_lines.append(line)
        for line in part["known_lines"]:
            if line not in ctx.known_lines:
                ctx.known_lines.append(line)
        os.remove(pp)
    ctx.ev.t0 = t0
    ctx.ev.extra["shards"] = nshards
    if harness_error:
        sys.stderr.write("harness error in at least one shard\n")
        return 2
    ctx.ev.write()
    return common.finish(ctx)


def main(argv=None) -> int:
    warnings.filterwarnings("ignore")
    ap = argparse.ArgumentParser()
    ap.add_argument("pid")
    ap.add_argument("--tier", default=os.environ.get("VERIF_TIER") or "quick")
    ap.add_argument("--replay", default=None)
    ap.add_argument("--shard", type=int, default=0)
    ap.add_argument("--nshards", type=int, default=None)
    ap.add_argument("--part", default=None)
    a = ap.parse_args(argv)
    pid = a.pid.upper()
    tier = a.tier if a.tier in ("quick", "thorough") else "quick"
    try:
        seed = int(os.environ.get("VERIF_SEED", "1") or "1")
    except ValueError:
        seed = 1
    try:
        if a.replay is not None:
            mod = _load(pid)
            doc = common.load_replay(a.replay)
            f = mod.replay(doc.get("check", "main"), doc["case"])
            if f is None:
                print(f"replay passes: property={pid} {a.replay}")
                return 0
            print(f"replay fails: {f.msg}")
            print(f"VIOLATION property={pid} replay={a.replay}")
            return 1
        if a.part is not None:
            return run_single(pid, tier, seed, a.shard, a.nshards or 1, a.part)
        nshards = a.nshards
        if nshards is None:
            nshards = 1 if tier == "quick" else int(os.environ.get("VERIF_SHARDS", "16"))
        mod = _load(pid)
        if nshards > 1 and getattr(mod, "SHARDABLE", True):
            return run_sharded(pid, tier, seed, nshards)
        return run_single(pid, tier, seed, 0, 1)
    except SystemExit:
        raise
    except BaseException:
        sys.stderr.write("HARNESS ERROR\n" + common.format_exc())
        return 2


if __name__ == "__main__":
    os.environ.setdefault("PYTHONHASHSEED", "0")
    sys.exit(main())
