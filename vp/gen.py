"""Hypothesis strategies over plain-data program specs (DESIGN.md 2.2).

`programs(cfg)` draws a whole case: 1-3 tables with data, a DAG of operator nodes that is well typed
by construction (types, nullability, uniqueness tracked in vp.schema), and a root.

cfg keys (all optional):
  max_nodes (int), n_tables (lo, hi), max_rows (int)
  ops: dict node kind -> weight (0 removes it)
  closed: set of feature flags closed because of open known findings / property scope:
      "null_group_key"   group_by / partition_by columns must be non-null
      "null_join_key"    join keys must be non-null
      "full_join", "right_join", "cross_join", "diffname_join_keys"
      "const_select"     select_rows with a constant predicate
      "literal_only_ops" extend assignments that are bare literals
      "project_all_overwritten"  (handled by check-specific generators)
      "window_null_arg"  windowed aggregate over a nullable argument
  engines: subset of {"pandas","sqlite","polars"}: methods must be in every engine's supported set
  final_order: probability of a final order_rows
  expr_mode: "text" | "object" | "mixed"
  extra_cols: add 1-3 extra unused-looking columns per table (C10)
"""

from __future__ import annotations

from typing import Any, Dict, List, Optional

from hypothesis import strategies as st

from . import schema as S
from .schema import NUM, Sch
from .spec import expr_cols as S_expr_cols

INT_VALS = [-3, -2, -1, 0, 1, 2, 3]
KEY_INT_VALS = [0, 1, 2]
FLOAT_VALS = [-4.0, -2.5, -1.0, -0.5, 0.0, 0.25, 0.5, 1.0, 1.5, 2.0, 4.0]
STR_VALS = ["a", "b", "c", "d", "e", "f", ""]
KEY_STR_VALS = ["a", "b", "c"]
DIVISORS = [0.5, 2.0, 4.0, -2.0]

DEFAULT_OPS = {
    "extend": 5,
    "window": 3,
    "ordered_window": 3,
    "project": 3,
    "select_rows": 3,
    "select_columns": 2,
    "drop_columns": 2,
    "rename_columns": 1,
    "map_columns": 1,
    "order_rows": 2,
    "natural_join": 4,
    "concat_rows": 1.5,
    "convert_records": 1,
}


class G:
    """Generation context bound to a Hypothesis `draw`."""

    def __init__(self, draw, cfg):
        self.draw = draw
        self.cfg = cfg
        self.closed = set(cfg.get("closed", ()))
        self.excluded = 0  # how often a closed flag actually removed a choice

    def pick(self, xs):
        return self.draw(st.sampled_from(list(xs)))

    def boolean(self, p=0.5):
        # sampled_from is (near) uniform; st.floats(0, 1) is heavily biased towards 0 and 1
        return self.draw(st.sampled_from(range(20))) < p * 20 if p != 0.5 else self.draw(st.booleans())

    def int(self, lo, hi):
        return self.draw(st.integers(lo, hi))

    def pool(self, t):
        """Names available for new columns of type t (cfg pool_size shrinks it so that overwrites collide)."""
        names = [n for n in S.POOLS[t] if n != "id"]
        return names[: self.cfg.get("pool_size", len(names))]

    def subset(self, xs, lo=0, hi=None):
        xs = list(xs)
        hi = len(xs) if hi is None else min(hi, len(xs))
        if lo > len(xs):
            lo = len(xs)
        return self.draw(st.lists(st.sampled_from(xs), min_size=lo, max_size=hi, unique=True)) if xs else []

    def weighted(self, weights: Dict[str, float]):
        items = [(k, w) for k, w in weights.items() if w > 0]
        slots = []
        for k, w in items:
            slots.extend([k] * max(1, int(round(w * 2))))
        return self.draw(st.sampled_from(slots))


# ----------------------------------------------------------------------------------------------
# tables


def gen_block_table(g: G):
    """A table in BLOCK form (complete blocks, rows shuffled): record key `id` (optionally also `g`), one key column `s`
    holding the level names, one or two value columns (a float one and, sometimes, an int one - listed in either order).
    Every control-table entry is a column name of the value column's type, so the pivot (blocks -> row records) of this
    table is again a well-typed table. tbl["blocks"] tells step_convert_records how to pivot it:
    {"record_keys", "key_col", "val_cols": [...], "levels": [{"key": level name, "cols": [output name per value col]}]}"""
    two = g.boolean(0.4)
    vts = ["float", "int"] if two else [g.pick(["float", "int"])]
    reserved = {"id", "s", "g"}
    vnames, level_cols = [], []
    nlev = g.pick([2, 2, 3]) if not two else 2
    for vt in vts:
        free = [n for n in S.POOLS[vt] if n not in reserved]
        vn = g.pick(free)
        reserved.add(vn)
        vnames.append(vn)
        labs = g.subset([n for n in S.POOLS[vt] if n not in reserved], lo=nlev, hi=nlev)
        reserved.update(labs)
        level_cols.append(labs)
    nlev = min(len(x) for x in level_cols)
    levels = [{"key": level_cols[0][i], "cols": [lc[i] for lc in level_cols]} for i in range(nlev)]
    nrec = g.pick([0, 1, 2, 3, 4])
    extra = g.boolean(0.4)  # a second record key column
    vcol_specs = [[vn, vt, vt != "int"] for vn, vt in zip(vnames, vts)]
    if two and g.boolean():
        vcol_specs.reverse()  # the data table lists its value columns in the other order than the control table
    cols = [["id", "int", False]] + ([["g", "str", False]] if extra else []) + [["s", "str", False]] + vcol_specs
    rows = []
    for rid in range(1, nrec + 1):
        gk = g.pick(KEY_STR_VALS) if extra else None
        for lev in levels:
            vals = []
            for vn, vt, _ in vcol_specs:
                if vt == "int":
                    vals.append(g.pick(INT_VALS))
                else:
                    vals.append(None if g.boolean(0.15) else g.pick(FLOAT_VALS))
            rows.append([rid] + ([gk] if extra else []) + [lev["key"]] + vals)
    kpos = 1 + (1 if extra else 0)
    if rows and "block_level_without_rows" not in g.closed and g.boolean(0.15):
        # one control-table level has no rows at all (every record lacks it): its columns are all missing
        gone = g.pick([lev["key"] for lev in levels])
        rows = [r for r in rows if r[kpos] != gone]
    if rows:
        rows = list(g.draw(st.permutations(rows)))
    rk = ["id"] + (["g"] if extra else [])
    return {"cols": cols, "rows": rows, "keys": [["id", "s"]], "blocks": {"record_keys": rk, "key_col": "s", "val_cols": vnames, "levels": levels}}


def gen_table(g: G, name: str, force_cols: Optional[List[str]] = None):
    cfg = g.cfg
    if cfg.get("block_table_prob") and not force_cols and g.boolean(cfg["block_table_prob"]):
        return gen_block_table(g)
    with_id = g.boolean(0.85)
    pool = [n for n in S.NAME_TYPE if n != "id"]
    ncols = g.int(2, 5)
    names = g.subset(pool, lo=ncols, hi=ncols)
    for fc in force_cols or []:
        if fc not in names and fc != "id":
            names.append(fc)
    # make sure there is something to group/join on and something numeric
    if not any(S.NAME_TYPE[n] in ("int", "str") for n in names):
        names.append(g.pick(["k", "g"]))
    if not any(S.NAME_TYPE[n] in NUM for n in names):
        names.append(g.pick(["x", "a"]))
    names = sorted(set(names), key=lambda n: (list(S.NAME_TYPE).index(n)))
    if cfg.get("shuffle_cols", True):
        names = g.draw(st.permutations(names))
    cols = []
    if with_id:
        cols.append(["id", "int", False])
    for n in names:
        t = S.NAME_TYPE[n]
        nullable = t in ("float", "str") and g.boolean()
        if cfg.get("force_cols_nullable") and n in (force_cols or []) and t in ("float", "str"):
            nullable = True
        cols.append([n, t, nullable])
    max_rows = cfg.get("max_rows", 7)
    nrows = g.pick([0, 1, 1, 2, 3, 4, 5, max_rows, max_rows])
    rows = []
    ids = g.draw(st.permutations(list(range(1, nrows + 1)))) if with_id else []
    for i in range(nrows):
        row = []
        for n, t, nullable in cols:
            if n == "id":
                row.append(ids[i])
            elif t == "int":
                row.append(g.pick(KEY_INT_VALS if n == "k" else INT_VALS))
            elif t == "float":
                row.append(None if nullable and g.boolean(cfg.get("null_rate", 0.25)) else g.pick(FLOAT_VALS))
            elif t == "str":
                row.append(None if nullable and g.boolean(cfg.get("null_rate", 0.25)) else g.pick(KEY_STR_VALS if n == "g" else STR_VALS))
            else:
                row.append(g.boolean())
        rows.append(row)
    return {"cols": cols, "rows": rows, "keys": [["id"]] if with_id else []}


# ----------------------------------------------------------------------------------------------
# expressions


def lit_of(g: G, t: str):
    if t == "int":
        return ["lit", g.pick(INT_VALS)]
    if t == "float":
        return ["lit", g.pick(FLOAT_VALS)]
    if t == "str":
        return ["lit", g.pick(STR_VALS)]
    return ["lit", g.boolean()]


def gen_num(g: G, sch: Sch, t: str, depth: int, must_col=False):
    """Numeric expression of type t ('int' or 'float'). Returns expr."""
    cols_t = sch.of_type(t)
    if depth <= 0 or (not must_col and g.boolean(0.3)):
        if cols_t and (must_col or g.boolean(0.8)):
            return ["col", g.pick(cols_t)]
        if must_col:
            anyc = sch.of_type(*NUM)
            if anyc:
                c = g.pick(anyc)
                if t == "float":
                    return ["call", "*", [["col", c], ["lit", 1.0]]]
                return ["col", c] if sch.cols[c]["type"] == "int" else None
            return None
        return lit_of(g, t)
    kinds = ["arith", "arith", "neg", "abs", "if_else", "maxmin", "nonassoc"]
    if t == "float":
        kinds += ["div", "coalesce", "floorceil", "mixed"]
    k = g.pick(kinds)
    if k == "nonassoc":
        # the same non-associative operator nested as its own RIGHT operand: a - (b - c), a / (4.0 / 0.5)
        a = gen_num(g, sch, t, depth - 1, must_col=must_col)
        if a is None:
            return None
        if t == "float" and g.boolean():
            return ["call", "/", [a, ["call", "/", [["lit", g.pick([4.0, 2.0, 1.0])], ["lit", g.pick([0.5, 2.0, 4.0])]]]]]
        b = gen_num(g, sch, t, max(depth - 1, 0)) or lit_of(g, t)
        c = lit_of(g, t) if g.boolean() else (gen_num(g, sch, t, 0) or lit_of(g, t))
        return ["call", "-", [a, ["call", "-", [b, c]]]]
    if k == "arith":
        op = g.pick(["+", "-", "*"])
        a = gen_num(g, sch, t, depth - 1, must_col=must_col)
        b = gen_num(g, sch, t, depth - 1) or lit_of(g, t)
        if a is None:
            return None
        return ["call", op, [a, b]]
    if k == "mixed":
        op = g.pick(["+", "-", "*"])
        a = gen_num(g, sch, "int", depth - 1, must_col=False) or lit_of(g, "int")
        b = gen_num(g, sch, "float", depth - 1, must_col=must_col)
        if b is None:
            return None
        return ["call", op, [a, b]] if g.boolean() else ["call", op, [b, a]]
    if k == "neg":
        a = gen_num(g, sch, t, depth - 1, must_col=True)
        return None if a is None else ["call", "neg", [a]]
    if k == "abs":
        a = gen_num(g, sch, t, depth - 1, must_col=True)
        return None if a is None else ["call", "abs", [a]]
    if k == "div":
        a = gen_num(g, sch, g.pick(["int", "float"]), depth - 1, must_col=True)
        if a is None:
            return None
        if a[0] == "call" and g.boolean(g.cfg.get("float_divide_prob", 0.5)) and sch.cols and "float_divide" not in g.closed:
            # the explicit float division operator with a compound numerator (dialects format it on their own)
            fa = a if S.expr_type(a, sch)[0] == "float" else ["call", "*", [a, ["lit", 1.0]]]
            if g.boolean():
                # an inline sum / difference as numerator: (a + b) %/% c is not a + b %/% c
                fa = ["call", g.pick(["+", "-"]), [fa, ["lit", g.pick([1.5, 2.0, -0.5, 4.0])]]]
            return ["call", "%/%", [fa, ["lit", g.pick(DIVISORS)]]]
        return ["call", "/", [a, ["lit", g.pick(DIVISORS)]]]
    if k == "floorceil":
        a = gen_num(g, sch, "float", depth - 1, must_col=True)
        return None if a is None else ["call", g.pick(["floor", "ceil"]), [a]]
    if k == "coalesce":
        nullable = sch.of_type("float", null=True)
        if not nullable:
            return gen_num(g, sch, t, depth - 1, must_col=must_col)
        return ["call", "coalesce", [["col", g.pick(nullable)], ["lit", g.pick(FLOAT_VALS)]]]
    if k == "if_else":
        c = gen_bool(g, sch, depth - 1)
        if c is None:
            return gen_num(g, sch, t, depth - 1, must_col=must_col)
        a = gen_num(g, sch, t, depth - 1) or lit_of(g, t)
        b = gen_num(g, sch, t, depth - 1) or lit_of(g, t)
        if a[0] == "lit" and b[0] == "lit" and c[0] == "lit":
            return gen_num(g, sch, t, 0, must_col=must_col)
        return ["call", "if_else", [c, a, b]]
    if k == "maxmin":
        # nullable operands are in: maximum/minimum propagate missing values, fmax/fmin ignore them (docstrings)
        nn = [c for c in sch.of_type(t, null=(False if "maxmin_null" in g.closed else None))]
        if len(nn) < 1:
            return gen_num(g, sch, t, depth - 1, must_col=must_col)
        a = ["col", g.pick(nn)]
        b = ["col", g.pick(nn)] if g.boolean() else lit_of(g, t)
        return ["call", g.pick(["maximum", "minimum", "fmax", "fmin"]), [a, b]]
    raise AssertionError(k)


def _nonnull_num_atom(g: G, sch: Sch):
    cs = sch.of_type(*NUM, null=False)
    if not cs:
        return None
    return ["col", g.pick(cs)]


def gen_bool(g: G, sch: Sch, depth: int):
    """Non-null boolean expression with at least one column reference, or None."""
    kinds = []
    nn_num = sch.of_type(*NUM, null=False)
    nn_str = sch.of_type("str", null=False)
    bools = sch.of_type("bool", null=False)
    nullable = [c for c in sch.names() if sch.cols[c]["null"] and not sch.cols[c]["zn"] and sch.cols[c]["type"] in ("float", "str", "int")]
    if nn_num:
        kinds += ["cmp", "cmp"]
    if nn_str:
        kinds += ["streq", "is_in"]
    if bools:
        kinds += ["boolcol"]
    if nullable:
        kinds += ["is_null"]
    if not kinds:
        return None
    if depth > 0:
        kinds += ["and", "or", "not"]
    k = g.pick(kinds)
    if k == "cmp":
        a = ["col", g.pick(nn_num)]
        ta = sch.cols[a[1]]["type"]
        if g.boolean(0.6):
            b = lit_of(g, ta)
        else:
            b = ["col", g.pick(nn_num)]
        return ["call", g.pick(["==", "!=", "<", "<=", ">", ">="]), [a, b]]
    if k == "streq":
        a = ["col", g.pick(nn_str)]
        b = lit_of(g, "str") if g.boolean(0.7) else ["col", g.pick(nn_str)]
        return ["call", g.pick(["==", "!="]), [a, b]]
    if k == "is_in":
        a = ["col", g.pick(nn_str)]
        vals = g.subset(STR_VALS, lo=1, hi=3)
        return ["call", "is_in", [a, ["list", vals]]]
    if k == "boolcol":
        return ["col", g.pick(bools)]
    if k == "is_null":
        return ["call", "is_null", [["col", g.pick(nullable)]]]
    if k in ("and", "or"):
        a = gen_bool(g, sch, depth - 1)
        b = gen_bool(g, sch, depth - 1)
        return ["call", k, [a, b]]
    if k == "not":
        a = gen_bool(g, sch, depth - 1)
        return ["call", "not", [a]]
    raise AssertionError(k)


def gen_str(g: G, sch: Sch, depth: int):
    nn = sch.of_type("str", null=False)
    allc = sch.of_type("str")
    if not allc:
        return None
    k = g.pick(["col", "concat", "if_else"]) if nn and depth > 0 else "col"
    if k == "col":
        return ["col", g.pick(allc)]
    if k == "concat":
        a = ["col", g.pick(nn)]
        b = lit_of(g, "str") if g.boolean() else ["col", g.pick(nn)]
        return ["call", "%+%", [a, b]]
    c = gen_bool(g, sch, depth - 1)
    if c is None:
        return ["col", g.pick(allc)]
    return ["call", "if_else", [c, ["col", g.pick(nn)], lit_of(g, "str")]]


def gen_scalar_assignment(g: G, sch: Sch, forbid: set):
    """One row-wise assignment [name, expr] (name may overwrite an existing column of the same type)."""
    t = g.pick(["int", "float", "float", "bool", "str"])
    depth = g.pick([1, 1, 2, 3])
    if t in NUM:
        e = gen_num(g, sch, t, depth, must_col=True)
    elif t == "bool":
        e = gen_bool(g, sch, depth)
    else:
        e = gen_str(g, sch, depth)
        if e is not None and e[0] == "col":
            e = None
    if e is None:
        return None
    try:
        rt, _ = S.expr_type(e, sch)
    except S.TypeErr:
        return None
    names = [n for n in g.pool(rt) if n not in forbid and n != "id"]
    if not names:
        return None
    return [g.pick(names), e]


# ----------------------------------------------------------------------------------------------
# steps


def _group_keys(g: G, sch: Sch, lo=0, hi=2):
    cands = [c for c in sch.names() if sch.cols[c]["type"] in ("int", "str", "float", "bool") and not sch.cols[c]["zn"]]
    if "null_group_key" in g.closed:
        nn = [c for c in cands if not sch.cols[c]["null"]]
        if len(nn) < len(cands):
            g.excluded += 1
        cands = nn
    # prefer low-cardinality columns
    pref = [c for c in cands if c in ("k", "g", "p", "q", "s", "a", "h")]
    pool = pref if pref and g.boolean(0.8) else cands
    return g.subset(pool, lo=lo, hi=hi)


def ops_conflict(ops, name, e) -> bool:
    """Builder rule (parse_assignments_in_context): a column may not be produced by one assignment and
    used by another (it may be used by its own)."""
    from .spec import expr_cols

    produced = {o[0] for o in ops}
    used = set()
    for o in ops:
        used |= expr_cols(o[1]) - {o[0]}
    if name in produced or name in used:
        return True
    if (expr_cols(e) - {name}) & produced:
        return True
    return False


def step_extend(g: G, sch: Sch):
    n = g.pick([1, 1, 2, 3])
    ops = []
    for _ in range(n):
        a = gen_scalar_assignment(g, sch, forbid=set())
        if a is None:
            continue
        name, e = a
        if ops_conflict(ops, name, e):
            continue
        ops.append([name, e])
    if not ops:
        return None
    return {"op": "extend", "ops": ops}


def step_window(g: G, sch: Sch):
    pb = _group_keys(g, sch, lo=0, hi=2)
    fns = []
    n = g.pick([1, 1, 2])
    forbid = set(pb)
    ops = []
    for _ in range(n):
        fn = g.pick(["sum", "mean", "min", "max", "count", "size", "_size"])
        argt = S.AGG_WINDOW[fn][0]
        arg = None
        if argt:
            cands = [c for c in sch.of_type(*argt)]
            if "window_null_arg" in g.closed:
                cands = [c for c in cands if not sch.cols[c]["null"]]
            if fn in ("min", "max", "sum", "mean"):
                cands = [c for c in cands if sch.cols[c]["type"] in NUM]
            if not cands:
                continue
            arg = ["col", g.pick(cands)]
        ci = S.agg_result(S.AGG_WINDOW, fn, arg, sch, windowed=True)
        names = [x for x in g.pool(ci["type"]) if x not in forbid and x != "id" and x not in [o[0] for o in ops]]
        if arg is not None:
            pass
        if not names:
            continue
        name = g.pick(names)
        e = ["call", fn, [arg] if arg is not None else []]
        if ops_conflict(ops, name, e):
            continue
        ops.append([name, e])
    if not ops:
        return None
    return {"op": "extend", "ops": ops, "partition_by": pb if pb else 1}


def _total_order_cols(g: G, sch: Sch, avoid=(), strict=False):
    """Column list giving a total order (contains a key, all non-null). Non-strict callers (order_rows with
    limit) also accept "all columns": ties are then identical rows. Window functions need strict=True: SQL's
    default RANGE frame gives peers the same value, Pandas does not."""
    nn = [c for c in sch.names() if not sch.cols[c]["null"] and not sch.cols[c]["zn"] and c not in avoid]
    keys = [k for k in sch.keys if k <= set(nn)]
    if keys:
        key = sorted(g.pick(sorted(keys, key=sorted)))
        extra = g.subset([c for c in nn if c not in key], lo=0, hi=2)
        cols = extra + key
        if g.boolean(0.3):
            cols = g.draw(st.permutations(cols))
        return list(cols)
    if (not strict) and set(nn) == set(sch.names()) and not avoid and len(nn) <= 6:
        return list(g.draw(st.permutations(nn)))
    return None


def step_ordered_window(g: G, sch: Sch, prefer=(), prefer_prob=0.7):
    """prefer: columns assigned by the directly preceding extend — put one FIRST in order_by with high probability
    (an order column computed one step earlier is what SQL-level extend merging must not lose track of)."""
    pb = _group_keys(g, sch, lo=0, hi=1)
    ob = _total_order_cols(g, sch, avoid=set(pb), strict=True)
    if ob is None:
        return None
    pref = [c for c in prefer if c in sch.cols and not sch.cols[c]["null"] and not sch.cols[c]["zn"] and c not in pb and sch.cols[c]["type"] != "bool"]
    if pref and g.boolean(prefer_prob):
        lead = g.pick(pref)
        ob = [lead] + [c for c in ob if c != lead]
    # keys must be wholly inside order_by ∪ partition_by: ordering within a partition is then total
    rev = g.subset(ob, lo=1, hi=len(ob)) if g.boolean(0.5) else []
    forbid = set(pb) | set(ob)
    ops = []
    for _ in range(g.pick([1, 1, 2])):
        fn = g.pick(["cumsum", "cummax", "cummin", "_row_number", "shift"])
        arg = None
        extra = []
        if fn != "_row_number":
            cands = sch.of_type(*S.ORDERED_WINDOW[fn][0])
            if fn != "shift":
                cands = [c for c in cands if not sch.cols[c]["null"]]
            if not cands:
                continue
            arg = ["col", g.pick(cands)]
            if fn == "shift" and g.boolean(0.5):
                extra = [["lit", g.pick([1, 2, -1])]]
        t = S.ORDERED_WINDOW[fn][1]
        rt = sch.cols[arg[1]]["type"] if t == "same" else t
        names = [x for x in g.pool(rt) if x not in forbid and x != "id" and x not in [o[0] for o in ops]]
        if not names:
            continue
        name = g.pick(names)
        e = ["call", fn, ([arg] if arg is not None else []) + extra]
        if ops_conflict(ops, name, e):
            continue
        ops.append([name, e])
    if not ops:
        return None
    nd = {"op": "extend", "ops": ops, "order_by": ob}
    if pb:
        nd["partition_by"] = pb
    else:
        nd["partition_by"] = 1
    if rev:
        nd["reverse"] = rev
    return nd


def window_pair(g: G, sch: Sch):
    """Two adjacent ordered-window extends that differ in ONE window parameter only (order_by permuted, partition
    list -> 1 or shortened, reverse differs) with independent assignments; the second is valid on top of the first.
    Returns (first, second, variant) node specs without "src", or None."""
    first = None
    for _ in range(6):
        cand = step_ordered_window(g, sch)
        if cand is not None and len(cand["order_by"]) >= 2:
            first = cand
            break
    if first is None:
        return None
    variant = g.pick(["order_permuted", "partition_to_1", "reverse_differs", "partition_shortened"])
    second = {"op": "extend", "order_by": list(first["order_by"]), "partition_by": first.get("partition_by", 1)}
    if first.get("reverse"):
        second["reverse"] = list(first["reverse"])
    if variant == "order_permuted":
        second["order_by"] = list(reversed(first["order_by"]))
    elif variant == "partition_to_1":
        second["partition_by"] = 1
    elif variant == "reverse_differs":
        k = g.pick(first["order_by"])
        rv = set(first.get("reverse") or []) ^ {k}
        if rv:
            second["reverse"] = sorted(rv)
        else:
            second.pop("reverse", None)
    elif isinstance(first.get("partition_by"), list) and first["partition_by"]:
        second["partition_by"] = first["partition_by"][:-1] or 1
    pb1 = first["partition_by"] if isinstance(first.get("partition_by"), list) else []
    taken = {k for k, _ in first["ops"]} | set(first["order_by"]) | set(pb1)
    for _, e in first["ops"]:
        taken |= {a[1] for a in e[2] if a[0] == "col"}
    ops2 = []
    free_int = [n for n in S.POOLS["int"] if n not in taken and n != "id"]
    if free_int:
        ops2.append([g.pick(free_int), ["call", "_row_number", []]])
    nonnull = [c for c in sch.of_type("int", "float", null=False) if c not in taken]
    if nonnull and g.boolean():
        src = g.pick(nonnull)
        tgt = [n for n in S.POOLS[sch.cols[src]["type"]] if n not in taken and n != src and n != "id" and n not in [o[0] for o in ops2]]
        if tgt:
            ops2.append([g.pick(tgt), ["call", "cumsum", [["col", src]]]])
    if not ops2:
        return None
    second["ops"] = ops2
    return first, second, variant


def step_project(g: G, sch: Sch):
    gb = _group_keys(g, sch, lo=0, hi=2)
    ops = []
    n = g.pick([0, 1, 1, 2, 3]) if gb else g.pick([1, 1, 2, 3])
    engines = set(g.cfg.get("engines", ("pandas", "sqlite")))
    fn_pool = ["sum", "mean", "min", "max", "count", "size", "_size", "nunique", "median", "std", "var", "any", "all"]
    if not gb:
        fn_pool = [f for f in fn_pool if f not in ("any", "all")]
    for _ in range(n):
        fn = g.pick(fn_pool)
        argt = S.AGG_PROJECT[fn][0]
        arg = None
        if argt:
            cands = sch.of_type(*argt)
            if fn in ("any", "all"):
                # logic over NULL operands is the documented caveat (Pandas skips them, SQL's CASE counts them as false):
                # a bool column that an outer join / shift made nullable is not aggregated with any/all
                cands = [c for c in cands if not sch.cols[c]["null"]]
            if not cands:
                continue
            arg = ["col", g.pick(cands)]
        ci = S.agg_result(S.AGG_PROJECT, fn, arg, sch, ungrouped_maybe_empty=(not gb))
        names = [x for x in g.pool(ci["type"]) if x not in gb and x != "id" and x not in [o[0] for o in ops]]
        if not names:
            continue
        name = g.pick(names)
        e = ["call", fn, [arg] if arg is not None else []]
        if ops_conflict(ops, name, e):
            continue
        ops.append([name, e])
    if not ops and not gb:
        return None
    return {"op": "project", "ops": ops, "group_by": gb}


def step_select_rows(g: G, sch: Sch):
    e = gen_bool(g, sch, g.pick([0, 1, 1, 2]))
    if e is None or e[0] == "col" and False:
        return None
    return {"op": "select_rows", "expr": e}


def step_select_columns(g: G, sch: Sch):
    names = sch.names()
    if len(names) < 2:
        return None
    k = g.int(1, len(names))
    cols = g.subset(names, lo=k, hi=k)
    if g.boolean(0.5):
        cols = [c for c in names if c in cols]
    return {"op": "select_columns", "cols": cols}


def step_drop_columns(g: G, sch: Sch):
    names = sch.names()
    if len(names) < 2:
        return None
    cols = g.subset(names, lo=1, hi=min(2, len(names) - 1))
    return {"op": "drop_columns", "cols": cols}


def _rename_pairs(g: G, sch: Sch, allow_swap=True):
    names = [n for n in sch.names()]
    k = g.pick([1, 1, 2])
    olds = g.subset(names, lo=1, hi=k)
    pairs = []
    taken = set(names)
    if allow_swap and len(olds) == 2 and sch.cols[olds[0]]["type"] == sch.cols[olds[1]]["type"] and g.boolean(0.4):
        return [[olds[0], olds[1]], [olds[1], olds[0]]]
    for o in olds:
        t = sch.cols[o]["type"]
        cands = [n for n in S.POOLS[t] if n not in taken and n != "id"]
        if not cands:
            continue
        n = g.pick(cands)
        taken.add(n)
        pairs.append([o, n])
    return pairs


def step_rename_columns(g: G, sch: Sch):
    pairs = _rename_pairs(g, sch)
    if not pairs:
        return None
    return {"op": "rename_columns", "mapping": [[new, old] for old, new in pairs]}


def step_map_columns(g: G, sch: Sch):
    if "map_onto_deleted" not in g.closed and g.boolean(0.25):
        # rename y -> x while deleting the old x in the same step (legal: the builder only forbids collisions with
        # columns that survive)
        for t in g.draw(st.permutations(["int", "float", "str", "bool"])):
            same = [c for c in sch.names() if sch.cols[c]["type"] == t]
            if len(same) >= 2 and len(sch.names()) >= 3:
                y, x = g.subset(same, lo=2, hi=2)
                return {"op": "map_columns", "mapping": [[y, x], [x, None]] if g.boolean() else [[x, None], [y, x]]}
    pairs = _rename_pairs(g, sch)
    mapping = [[old, new] for old, new in pairs]
    used = {old for old, _ in pairs} | {new for _, new in pairs}
    rest = [n for n in sch.names() if n not in used]
    if rest and len(sch.names()) - 1 > len(pairs) and g.boolean(0.4):
        gone = g.pick(rest)
        mapping.append([gone, None])
        rest = [n for n in rest if n != gone]
    if rest and "map_identity_entry" not in g.closed and g.boolean(0.35):
        # an identity entry {"k": "k"}: legal, the column is simply kept
        keep = g.pick(rest)
        mapping.append([keep, keep])
    if not mapping:
        return None
    if g.boolean(0.5):
        mapping = list(g.draw(st.permutations(mapping)))
    return {"op": "map_columns", "mapping": mapping}


def step_order_rows(g: G, sch: Sch, final=False):
    if final and g.boolean(0.5):
        # any non-null columns: the result is compared by order-key sequence
        nn = [c for c in sch.names() if not sch.cols[c]["null"] and not sch.cols[c]["zn"]]
        if not nn:
            return None
        cols = g.subset(nn, lo=1, hi=3)
        limit = None
    else:
        cols = _total_order_cols(g, sch)
        if cols is None:
            return None
        limit = g.pick([None, 0, 1, 2, 3, 5]) if final else g.pick([0, 1, 2, 3, 5, None])
        noc = g.cfg.get("null_order_cols")
        if final and noc and g.boolean(0.5 if noc is True else float(noc)):
            # a NULL-able leading order column (only for checks that compare an engine with itself: where NULLs
            # sort is engine specific); the order stays total because the key columns follow
            nullable = [c for c in sch.names() if sch.cols[c]["null"] and not sch.cols[c]["zn"] and c not in cols and sch.cols[c]["type"] != "bool"]
            if nullable:
                cols = [g.pick(nullable)] + cols
                if limit is None and g.boolean(0.7):
                    limit = g.pick([1, 2, 3])  # top-k over an ordering column with missing values
    rev = g.subset(cols, lo=1, hi=len(cols)) if g.boolean(0.5) else []
    return {"op": "order_rows", "cols": cols, "reverse": rev, "limit": limit}


def step_join(g: G, schemas: Dict[int, Sch], a: int, b: int):
    sa, sb = schemas[a], schemas[b]
    closed = g.closed
    common = [c for c in sa.names() if c in sb.cols]
    for c in common:
        if sa.cols[c]["type"] != sb.cols[c]["type"]:
            return None
        if sa.cols[c]["zn"] or sb.cols[c]["zn"]:
            return None  # a zero/null tolerant column must not feed the COALESCE of a shared column

    def keyable(s, c):
        ci = s.cols[c]
        if ci["zn"] or ci["type"] == "bool":
            return False
        if ci["null"] and "null_join_key" in closed:
            return False
        return True

    jts = ["inner", "left", "left", "right", "full", "cross"] + list(g.cfg.get("extra_jointypes", []))
    for flag, jt in (("full_join", "full"), ("right_join", "right"), ("cross_join", "cross")):
        if flag in closed:
            jts = [j for j in jts if j != jt]
    jt = g.pick(jts)
    if jt == "full" and "null_full_join_key" in closed:
        closed = closed | {"null_join_key"}
    on = []
    if jt != "cross":
        same = [c for c in common if keyable(sa, c) and keyable(sb, c)]
        if "null_join_key" in closed and len(same) < len([c for c in common if not sa.cols[c]["zn"]]):
            g.excluded += 1
        nk = g.pick([1, 1, 2])
        if same:
            pref = [c for c in same if c in ("k", "g", "id", "a", "s", "h")]
            nullable_keys = [c for c in same if sa.cols[c]["null"] and sb.cols[c]["null"]]
            if nullable_keys and g.cfg.get("nullable_join_key_prob") and g.boolean(g.cfg["nullable_join_key_prob"]):
                pref = nullable_keys  # keys that can be missing on BOTH sides
            pool = pref if pref and g.boolean(0.8) else same
            on = [[c, c] for c in g.subset(pool, lo=1, hi=nk)]
        if (not on or g.boolean(g.cfg.get("diffname_prob", 0.15))) and "diffname_join_keys" not in closed:
            # differently named keys of equal type
            ca = [c for c in sa.names() if keyable(sa, c)]
            cb = [c for c in sb.names() if keyable(sb, c)]
            pairs = [(x, y) for x in ca for y in cb if x != y and sa.cols[x]["type"] == sb.cols[y]["type"] and x not in [p[0] for p in on] and y not in [p[1] for p in on]]
            # a differently named key pair keeps both columns; avoid pairs whose names collide with the other side
            if "diffname_key_shadow" in closed or not g.boolean(0.3):
                # usually keep both key names distinct from the other side's columns; sometimes let the left key name
                # also be a NON-key column of the right side (it then is a shared column: COALESCE(left, right))
                pairs = [(x, y) for x, y in pairs if x not in sb.cols and y not in sa.cols]
            else:
                pairs = [(x, y) for x, y in pairs if (x in sb.cols) != (y in sa.cols) or (x not in sb.cols and y not in sa.cols)]
            if pairs:
                x, y = g.pick(pairs)
                on = on + [[x, y]] if g.boolean(0.5) else [[x, y]]
        if not on:
            return None
        if jt == "full" and "full_join_diffname" in closed and any(x != y for x, y in on):
            g.excluded += 1
            return None
        if jt == "right" and "right_join_diffname" in closed and any(x != y for x, y in on):
            g.excluded += 1
            return None
    nd = {"op": "natural_join", "a": a, "b": b, "on": on, "jointype": jt}
    return nd


def step_concat(g: G, schemas: Dict[int, Sch], a: int, b: int):
    sa, sb = schemas[a], schemas[b]
    if set(sa.names()) != set(sb.names()):
        return None
    for c in sa.names():
        if sa.cols[c]["type"] != sb.cols[c]["type"]:
            return None
    idc = None
    if g.boolean(0.6):
        cands = [n for n in S.POOLS["str"] if n not in sa.cols]
        if cands:
            idc = g.pick(cands)
    nd = {"op": "concat_rows", "a": a, "b": b, "id_column": idc, "a_name": g.pick(["a", "left", "x1"]), "b_name": g.pick(["b", "right", "x2"])}
    return nd


def step_convert_records(g: G, sch: Sch, blocks=None):
    """An unpivot (row records -> blocks) of 2-3 same-typed value columns, or — when the source is a block-form table
    (`blocks` = its description, see gen_block_table) — the pivot of that table into row records."""
    if blocks is not None and g.boolean(0.8):
        kc = blocks["key_col"]
        ct = {"cols": [kc] + list(blocks["val_cols"]), "rows": [[lev["key"]] + list(lev["cols"]) for lev in blocks["levels"]]}
        rm = {"blocks_in": {"control_table": ct, "record_keys": list(blocks["record_keys"]), "control_table_keys": [kc]}, "blocks_out": None, "strict": True}
        return {"op": "convert_records", "record_map": rm}
    kind = g.pick(["unpivot", "unpivot", "pivot"])
    if kind == "unpivot":
        for t in g.draw(st.permutations(["float", "int", "str"])):
            vals = sch.of_type(t)
            if len(vals) >= 2:
                break
        else:
            return None
        k = g.pick([2, 2, 3]) if len(vals) >= 3 else 2
        vcols = g.subset(vals, lo=k, hi=k)
        rk = [c for c in sch.names() if c not in vcols]
        if any(sch.cols[c]["zn"] for c in sch.names()):
            return None
        if not sch.has_key_within(rk) or any(sch.cols[c]["null"] for c in rk):
            return None  # documented precondition: the table must be keyed by the record keys
        keyname_c = [n for n in S.POOLS["str"] if n not in sch.cols]
        valname_c = [n for n in S.POOLS[t] if n not in sch.cols or n in vcols]
        valname_c = [n for n in valname_c if n not in rk]
        if not keyname_c or not valname_c:
            return None
        kn, vn = g.pick(keyname_c), g.pick(valname_c)
        ct = {"cols": [kn, vn], "rows": [[c, c] for c in vcols]}
        rm = {"blocks_in": None, "blocks_out": {"control_table": ct, "record_keys": rk, "control_table_keys": [kn]}, "strict": True}
        return {"op": "convert_records", "record_map": rm}
    return None


UNARY_STEPS = {
    "extend": step_extend,
    "window": step_window,
    "ordered_window": step_ordered_window,
    "project": step_project,
    "select_rows": step_select_rows,
    "select_columns": step_select_columns,
    "drop_columns": step_drop_columns,
    "rename_columns": step_rename_columns,
    "map_columns": step_map_columns,
    "order_rows": step_order_rows,
    "convert_records": step_convert_records,
}


class Builder:
    """Grows a case node by node, tracking schemas."""

    def __init__(self, g: G, cfg):
        self.g = g
        self.cfg = cfg
        self.weights = dict(DEFAULT_OPS)
        self.weights.update(cfg.get("ops", {}))
        lo, hi = cfg.get("n_tables", (1, 2))
        nt = g.int(lo, hi)
        tables = {}
        self.tnames = ["t1", "t2", "t3"][:nt]
        for tn in self.tnames:
            tables[tn] = gen_table(g, tn, force_cols=cfg.get("force_cols"))
        if cfg.get("given_tables"):
            # caller-supplied table specs (e.g. "the output of pipeline a") come first: growth starts there
            given = cfg["given_tables"]
            tables = {**{k: v for k, v in given.items()}, **({} if cfg.get("only_given") else tables)}
            self.tnames = list(given.keys()) + ([] if cfg.get("only_given") else self.tnames)
        self.case = {"tables": tables, "nodes": [], "root": 0, "expr_mode": "text"}
        self.schemas: Dict[int, Sch] = {}
        self.heads = [self.add({"op": "table", "name": tn}) for tn in self.tnames]

    def add(self, nd):
        self.case["nodes"].append(nd)
        i = len(self.case["nodes"]) - 1
        try:
            self.schemas[i] = S.out_schema(nd, self.schemas, self.case)
        except (S.TypeErr, KeyError):
            self.case["nodes"].pop()
            return None
        return i

    def step(self, cur: int, kind: str, other: Optional[int] = None):
        """Try to add one node of `kind` on top of `cur`; returns the new node id or None."""
        g, cfg, schemas, case = self.g, self.cfg, self.schemas, self.case
        nd = None
        if kind in ("natural_join", "concat_rows"):
            if other is None:
                others = [i for i in schemas if i != cur]
                if not others:
                    return None
                if cfg.get("reuse_bias"):
                    computed = [i for i in others if case["nodes"][i]["op"] != "table"]
                    if computed and g.boolean(0.7):
                        others = computed
                other = g.pick(others)
            if kind == "natural_join":
                nd = step_join(g, schemas, cur, other) if g.boolean() else step_join(g, schemas, other, cur)
            else:
                nd = step_concat(g, schemas, cur, other)
                if nd is None and g.boolean(0.5):
                    nd = step_concat(g, schemas, cur, cur)
        elif kind == "order_rows":
            nd = step_order_rows(g, schemas[cur])
            if nd is not None:
                nd["src"] = cur
        elif kind == "ordered_window":
            prev = case["nodes"][cur]
            recent = [k for k, _ in prev["ops"]] if prev["op"] == "extend" and not prev.get("order_by") else []
            nd = step_ordered_window(g, schemas[cur], prefer=recent)
            if nd is not None:
                nd["src"] = cur
        else:
            if kind == "convert_records":
                src_nd = case["nodes"][cur]
                blocks = case["tables"][src_nd["name"]].get("blocks") if src_nd["op"] == "table" else None
                nd = step_convert_records(g, schemas[cur], blocks=blocks)
            else:
                nd = UNARY_STEPS[kind](g, schemas[cur])
            if nd is not None:
                nd["src"] = cur
        if nd is None:
            return None
        new = self.add(nd)
        if (
            new is not None
            and nd["op"] == "natural_join"
            and cfg.get("drop_join_key_prob")
            and any(x != y for x, y in nd["on"])
            and g.boolean(cfg["drop_join_key_prob"])
        ):
            # the differently named key of one side is needed by the join but not by anything downstream
            x, y = next((x, y) for x, y in nd["on"] if x != y)
            victim = g.pick([x, y])
            if len(schemas[new].names()) > 1:
                nxt = self.add({"op": "drop_columns", "src": new, "cols": [victim]})
                new = nxt if nxt is not None else new
        if (
            new is not None
            and nd["op"] == "extend"
            and not nd.get("order_by")
            and cfg.get("extend_then_ordered_window_prob")
            and g.boolean(cfg["extend_then_ordered_window_prob"])
        ):
            # a row-wise extend directly followed by a window ordered by a column it assigned (fresh or overwritten):
            # the pair a SQL-level extend merge / dependency analysis must keep apart
            nd2 = step_ordered_window(g, schemas[new], prefer=[k for k, _ in nd["ops"]], prefer_prob=1.0)
            if nd2 is not None:
                nd2["src"] = new
                nxt = self.add(nd2)
                new = nxt if nxt is not None else new
        elif (
            new is not None
            and nd["op"] == "extend"
            and not nd.get("order_by")
            and cfg.get("extend_then_partition_window_prob")
            and g.boolean(cfg["extend_then_partition_window_prob"])
        ):
            # ... or by a window PARTITIONED by a column it assigned, whose expressions read nothing else it assigned
            assigned = [k for k, _ in nd["ops"]]
            sch = schemas[new]
            keyable = [k for k in assigned if sch.cols[k]["type"] in ("int", "str", "bool") and not sch.cols[k]["zn"]]
            args = [c for c in sch.of_type(*NUM) if c not in assigned and not sch.cols[c]["null"]]
            free = [n for n in g.pool("float") + g.pool("int") if n not in sch.cols]
            if keyable and args and free:
                pk = g.pick(keyable)
                fn = g.pick(["sum", "max", "min", "mean"])
                arg = g.pick(args)
                rt = S.agg_result(S.AGG_WINDOW, fn, ["col", arg], sch, windowed=True)["type"]
                names = [n for n in free if S.NAME_TYPE[n] == rt]
                if names:
                    nxt = self.add({"op": "extend", "src": new, "ops": [[g.pick(names), ["call", fn, [["col", arg]]]]], "partition_by": [pk]})
                    new = nxt if nxt is not None else new
        if (
            new is not None
            and nd["op"] == "order_rows"
            and nd.get("limit") is not None
            and nd.get("cols")
            and cfg.get("drop_order_col_prob")
            and len(schemas[new].names()) > 1
            and g.boolean(cfg["drop_order_col_prob"])
        ):
            # top-k, then a step that no longer asks for (one of) the columns the top-k was ordered by
            victim = g.pick(nd["cols"])
            nxt = self.add({"op": "drop_columns", "src": new, "cols": [victim]})
            new = nxt if nxt is not None else new
        if (
            new is not None
            and nd["op"] in ("extend", "select_rows")
            and cfg.get("concat_with_source_prob")
            and set(schemas[new].names()) == set(schemas[nd["src"]].names())
            and g.boolean(cfg["concat_with_source_prob"])
        ):
            # a step that keeps the column SET (an extend that only overwrites, a filter) concatenated with its own source:
            # the two UNION ALL members list their columns in different internal orders
            pair = (new, nd["src"]) if g.boolean() else (nd["src"], new)
            nd3 = step_concat(g, schemas, *pair)
            if nd3 is not None:
                nxt = self.add(nd3)
                new = nxt if nxt is not None else new
        return new

    def twin(self, node_id: int, prefer=None):
        """Add a sibling of `node_id`: same source(s), ONE parameter changed (reverse set, limit, a literal, an
        operator, a method, jointype...). Two consumers that differ in one parameter only are what a CTE cache key
        or an equality test must tell apart. Returns the new node id or None."""
        from .checks import c11  # point mutations of specs live there

        g = self.g
        nd = self.case["nodes"][node_id]
        if nd["op"] == "convert_records":
            # same record keys, same output columns, but every key label reads the NEXT value column: a different
            # result behind identical column requests (steps without their own cache key must not be shared)
            import copy as _copy

            bo = (nd["record_map"] or {}).get("blocks_out")
            if nd["record_map"].get("blocks_in") is None and bo and len(bo["control_table"]["rows"]) >= 2:
                new_nd = _copy.deepcopy(nd)
                rows = new_nd["record_map"]["blocks_out"]["control_table"]["rows"]
                srcs = [r[1] for r in rows]
                for r, s in zip(rows, srcs[1:] + srcs[:1]):
                    r[1] = s
                return self.add(new_nd)
            return None
        kinds = {
            "order_rows": ["reverse", "limit", "order_cols_order"],
            "extend": ["lit_value", "operator", "method", "column_ref", "reverse", "partition_by", "order_by"],
            "select_rows": ["lit_value", "operator", "column_ref"],
            "project": ["method", "column_ref", "group_by_order"],
            "natural_join": ["jointype"],
        }.get(nd["op"])
        if not kinds:
            return None
        mini = {"tables": self.case["tables"], "nodes": self.case["nodes"][: node_id + 1], "root": node_id, "expr_mode": "text"}
        order = list(g.draw(st.permutations(kinds)))
        if prefer in order:
            order.remove(prefer)
            order.insert(0, prefer)
        for kind in order:
            try:
                m = c11.mutate(mini, kind, g.pick)
            except (KeyError, IndexError, S.TypeErr, ValueError):
                m = None
            if m is None:
                continue
            new_nd = m["nodes"][node_id]
            if new_nd == nd:
                continue
            # the mutation may have hit an earlier node of the mini case: only accept changes of this node
            if m["nodes"][:node_id] != self.case["nodes"][:node_id]:
                continue
            if kind == "column_ref" and "src" in nd:
                # the mutation knows types only: a column that came in must be as null-free as one that went out
                # (comparisons / logic / any / all on NULL operands are the documented caveat and never generated)
                def _cols(n):
                    es = [e for _, e in n.get("ops", [])] + ([n["expr"]] if "expr" in n else [])
                    acc = set()
                    for e in es:
                        acc |= S_expr_cols(e)
                    return acc

                sch = self.schemas[nd["src"]]
                came, went = _cols(new_nd) - _cols(nd), _cols(nd) - _cols(new_nd)
                flags = lambda c: (sch.cols[c]["null"], sch.cols[c]["zn"]) if c in sch.cols else (True, True)  # noqa: E731
                if any(flags(c) != (False, False) and flags(c) not in [flags(w) for w in went] for c in came):
                    continue
            return self.add(new_nd)
        return None

    def grow(self, cur: int, nsteps: int, weights=None, wander=0.15):
        g = self.g
        weights = weights or self.weights
        done = 0
        for _attempt in range(nsteps * 4 + 2):
            if done >= nsteps:
                break
            new = self.step(cur, g.weighted(weights))
            if new is None:
                continue
            cur = new
            done += 1
            if wander and g.boolean(wander):
                cur = g.pick(list(self.schemas.keys()))
        return cur

    def finish(self, cur: int):
        g, cfg = self.g, self.cfg
        if g.boolean(cfg.get("final_order", 0.35)):
            nd = step_order_rows(g, self.schemas[cur], final=True)
            if nd is not None:
                nd["src"] = cur
                new = self.add(nd)
                if new is not None:
                    cur = new
        self.case["root"] = cur
        mode = cfg.get("expr_mode", "mixed")
        if mode == "mixed":
            mode = "text" if g.boolean(0.7) else "object"
        self.case["expr_mode"] = mode
        self.case["excluded_by_construction"] = g.excluded
        return self.case


def draw_program(draw, cfg=None):
    cfg = dict(cfg or {})
    g = G(draw, cfg)
    b = Builder(g, cfg)
    if b.case["tables"][b.tnames[0]].get("blocks") and g.boolean(0.75):
        # a block-form input table is (mostly) pivoted first: blocks -> row records on shuffled, possibly incomplete-looking input
        nxt = b.step(b.heads[0], "convert_records")
        if nxt is not None:
            b.heads[0] = nxt
    max_nodes = cfg.get("max_nodes", 7)
    lo_steps = cfg.get("min_steps", 1)
    nsteps = g.pick([n for n in (1, 2, 2, 3, 3, 4, 4, 5, 5, 6, 7, 8) if lo_steps <= n <= max_nodes] or [lo_steps])
    shape = cfg.get("shape")
    if cfg.get("concat_perm_prob") and g.boolean(cfg["concat_perm_prob"]):
        # one sub-pipeline P used twice as a concat_rows member, once asked for its columns in P's own order and once
        # in a permuted order (UNION ALL is positional): concat(concat(P, S), concat(S, P)) with S = P.select_columns(perm)
        p = b.grow(b.heads[0], g.pick([1, 1, 2]), weights={"project": 4, "order_rows": 3, "extend": 3, "select_rows": 2, "window": 1}, wander=0)
        names = b.schemas[p].names()
        if p != b.heads[0] and len(names) >= 2:
            perm = list(g.draw(st.permutations(names)))
            if perm == names:
                perm = names[1:] + names[:1]
            s_node = b.add({"op": "select_columns", "src": p, "cols": perm})
            if s_node is not None:
                first = b.add({"op": "concat_rows", "a": p, "b": s_node, "id_column": None, "a_name": "a", "b_name": "b"})
                second = b.add({"op": "concat_rows", "a": s_node, "b": p, "id_column": None, "a_name": "a", "b_name": "b"})
                if first is not None and second is not None:
                    idc = [n for n in S.POOLS["str"] if n not in names]
                    root = b.add({"op": "concat_rows", "a": first, "b": second, "id_column": g.pick(idc) if idc and g.boolean() else None, "a_name": "x1", "b_name": "x2"})
                    if root is not None:
                        cur = b.grow(root, g.pick([0, 0, 1]), weights={"extend": 4, "select_rows": 2}, wander=0)
                        return b.finish(cur)
    if shape == "diamond" and g.boolean(cfg.get("shape_prob", 0.8)):
        # prefix P, two consumers A and B of P, combined by join/concat, then a chain of extends
        row_preserving = {"extend": 5, "window": 2, "ordered_window": 2, "select_rows": 2, "rename_columns": 1}
        p = b.grow(b.heads[0], g.pick([1, 1, 2, 3]), wander=0)
        a = b.grow(p, g.pick([0, 1, 1, 2]), weights={"extend": 5, "select_rows": 3, "window": 2, "ordered_window": 1}, wander=0)
        c = b.grow(p, g.pick([0, 1, 1, 2]), weights={"extend": 5, "select_rows": 3, "window": 2, "project": 1}, wander=0)
        cr_twin = None
        if b.weights.get("convert_records", 0) > 0 and "convert_records" not in g.closed and g.boolean(cfg.get("cr_twin_prob", 0.15)):
            # two DIFFERENT record conversions of one node that ask it for the same columns
            for base in (p, b.heads[0]):
                a2 = b.step(base, "convert_records")
                t2 = b.twin(a2) if a2 is not None else None
                if t2 is not None:
                    cr_twin = (a2, t2)
                    break
        if cr_twin is None and cfg.get("order_twin_prob") and g.boolean(cfg["order_twin_prob"]):
            # two top-k steps over the same node that differ in ONE of reverse / limit / order of the order columns
            nd_o = step_order_rows(g, b.schemas[p], final=False)
            if nd_o is not None and nd_o["cols"]:
                if nd_o["limit"] is None or nd_o["limit"] == 0:
                    nd_o["limit"] = g.pick([1, 2, 3])
                nd_o["src"] = p
                a2 = b.add(nd_o)
                t2 = b.twin(a2, prefer=g.pick(["reverse", "reverse", "limit", None])) if a2 is not None else None
                if t2 is not None:
                    cr_twin = (a2, t2)
        if cr_twin is not None:
            a, c = cr_twin
        elif cfg.get("narrowing_tails") and g.boolean(0.6):
            # both consumers ask the shared node for different column subsets
            if g.boolean(0.6):
                # complementary requests: each branch computes something from P and keeps only P's key + what it
                # computed (+ at most one more column of P) -> the two requests to P differ in both directions
                pcols = set(b.schemas[p].names())
                keyc = set(min(b.schemas[p].keys, key=len)) if b.schemas[p].keys else set()

                def complementary(cur):
                    if cur == p:
                        nxt = b.grow(cur, 1, weights={"extend": 5, "window": 2}, wander=0)
                        cur = nxt if nxt is not None else cur
                    names = b.schemas[cur].names()
                    keep = [x for x in names if x in keyc or x not in pcols]
                    extra = [x for x in names if x not in keep]
                    if extra and g.boolean(0.5):
                        keep.append(g.pick(extra))
                    if not keep or len(keep) == len(names):
                        return b.step(cur, "select_columns")
                    return b.add({"op": "select_columns", "src": cur, "cols": [x for x in names if x in keep]})

                na, nc = complementary(a), complementary(c)
            else:
                na = b.step(a, g.pick(["select_columns", "drop_columns"]))
                nc = b.step(c, g.pick(["select_columns", "drop_columns"]))
            a = na if na is not None else a
            c = nc if nc is not None else c
        elif g.boolean(0.4):
            # twin branches: A ends in a step, C is the same step with one parameter changed
            tw = {"order_rows": 4, "extend": 3, "ordered_window": 2, "select_rows": 2, "window": 1}
            if b.weights.get("convert_records", 0) > 0 and "convert_records" not in g.closed:
                tw["convert_records"] = 3
            a2 = None
            if "convert_records" in tw and g.boolean(0.35):
                a2 = b.step(p, "convert_records")
            if a2 is None:
                a2 = b.grow(p, 1, weights=tw, wander=0)
            t = b.twin(a2) if a2 != p else None
            if t is not None:
                a, c = a2, t
        cur = None
        for _ in range(4):
            kind = g.pick(["natural_join", "natural_join", "concat_rows"])
            cur = b.step(a, kind, other=c)
            if cur is not None:
                break
        if cur is None:
            cur = a
        cur = b.grow(cur, g.pick([1, 2, 2, 3]), weights={"extend": 8, "window": 2, "ordered_window": 4, "select_rows": 1, "drop_columns": 1, "select_columns": 1}, wander=0)
        return b.finish(cur)
    cur = b.grow(b.heads[0], nsteps)
    return b.finish(cur)


def programs(cfg=None):
    return st.composite(lambda draw: draw_program(draw, cfg))()


# ----------------------------------------------------------------------------------------------
# feature classification of a case (for evidence)


def features(case) -> List[str]:
    from . import spec

    fs = set()
    nodes = case["nodes"]
    reach = spec.reachable(case)
    uses: Dict[int, int] = {}
    for i in reach:
        nd = nodes[i]
        for s in spec.node_sources(nd):
            uses[s] = uses.get(s, 0) + 1
        op = nd["op"]
        if op == "extend":
            if nd.get("order_by"):
                fs.add("ordered_window")
            elif nd.get("partition_by"):
                fs.add("window")
            else:
                fs.add("extend")
            if nd.get("reverse"):
                fs.add("window_reverse")
        elif op == "natural_join":
            fs.add("join")
            fs.add("join_" + nd["jointype"].lower())
            if any(a != b for a, b in nd["on"]):
                fs.add("join_diffname_keys")
        elif op == "project":
            fs.add("project" if nd.get("group_by") else "project_ungrouped")
        elif op == "order_rows":
            fs.add("order_limit" if nd.get("limit") is not None else "order_rows")
        else:
            fs.add(op)
    if any(v > 1 for k, v in uses.items() if nodes[k]["op"] != "table"):
        fs.add("dag_reuse")
    if any(v > 1 for k, v in uses.items() if nodes[k]["op"] == "table"):
        fs.add("table_reuse")
    for tn in spec.used_tables(case):
        t = case["tables"][tn]
        if not t["rows"]:
            fs.add("empty_table")
        if any(v is None for r in t["rows"] for v in r):
            fs.add("null_data")
    if nodes[case["root"]]["op"] == "order_rows":
        fs.add("final_order")
    fs.add("mode_" + case.get("expr_mode", "text"))
    fs.add(f"depth_{min(len([i for i in reach if nodes[i]['op'] != 'table']), 8)}")
    return sorted(fs)


def n_ops(case) -> int:
    from . import spec

    return len([i for i in spec.reachable(case) if case["nodes"][i]["op"] != "table"])
