"""Deliberately naive reference implementations over plain Python rows (lists of cells; None = NULL), written
from the documentation ("data semantics are designed to be close to the SQL realizations") and the Term
docstrings — never from an executor.  Used by C09, C16, C27."""

from __future__ import annotations

import math
from typing import Any, Dict, List, Optional, Sequence


# ----------------------------------------------------------------------------------------------
# natural_join


def natural_join(lcols: List[str], lrows: List[list], rcols: List[str], rrows: List[list], on: List[List[str]], jointype: str):
    """Standard SQL join semantics + data_algebra's column rule:
    output columns = left columns, then right columns not already present; a column present on both sides
    (same-named key or shared non-key) is COALESCE(left, right). l.k = r.k is never true when either is NULL."""
    jt = jointype.upper()
    out_cols = list(lcols) + [c for c in rcols if c not in lcols]
    li = {c: i for i, c in enumerate(lcols)}
    ri = {c: i for i, c in enumerate(rcols)}

    def match(lr, rr):
        for a, b in on:
            x, y = lr[li[a]], rr[ri[b]]
            if x is None or y is None:
                return False
            if isinstance(x, str) != isinstance(y, str):
                return False
            if x != y:
                return False
        return True

    def combine(lr, rr):
        row = []
        for c in out_cols:
            lv = lr[li[c]] if (lr is not None and c in li) else None
            rv = rr[ri[c]] if (rr is not None and c in ri) else None
            if c in li and c in ri:
                row.append(lv if lv is not None else rv)
            elif c in li:
                row.append(lv)
            else:
                row.append(rv)
        return row

    out = []
    if jt == "CROSS":
        for lr in lrows:
            for rr in rrows:
                out.append(combine(lr, rr))
        return out_cols, out
    r_matched = [False] * len(rrows)
    for lr in lrows:
        hit = False
        for j, rr in enumerate(rrows):
            if match(lr, rr):
                hit = True
                r_matched[j] = True
                out.append(combine(lr, rr))
        if not hit and jt in ("LEFT", "FULL"):
            out.append(combine(lr, None))
    if jt in ("RIGHT", "FULL"):
        for j, rr in enumerate(rrows):
            if not r_matched[j]:
                out.append(combine(None, rr))
    return out_cols, out


# ----------------------------------------------------------------------------------------------
# aggregates (skip NULLs; SQL conventions)


def _nn(vals):
    return [v for v in vals if v is not None]


def agg(fn: str, vals: Sequence[Any], nrows: int):
    """Aggregate of one column's values within one group. Returns a value, or a set of acceptable values
    (when the documentation leaves a choice: sum over no non-null values is 0 or NULL)."""
    v = _nn(vals)
    if fn in ("size", "_size"):
        return float(nrows)
    if fn == "count":
        return float(len(v))
    if fn == "sum":
        if not v:
            return {0.0, None}
        return float(sum(v))
    if fn == "mean":
        return None if not v else float(sum(v)) / len(v)
    if fn == "min":
        return None if not v else min(v)
    if fn == "max":
        return None if not v else max(v)
    if fn == "nunique":
        return float(len(set(v)))
    if fn == "median":
        if not v:
            return None
        s = sorted(v)
        n = len(s)
        return float(s[n // 2]) if n % 2 else (s[n // 2 - 1] + s[n // 2]) / 2.0
    if fn in ("var", "std"):
        if len(v) < 2:
            return None
        m = sum(v) / len(v)
        var = sum((x - m) ** 2 for x in v) / (len(v) - 1)
        return var if fn == "var" else math.sqrt(var)
    if fn == "any":
        return {0.0, None} if not v else (1.0 if any(v) else 0.0)
    if fn == "all":
        return {1.0, None} if not v else (1.0 if all(v) else 0.0)
    raise ValueError(fn)


def group_rows(rows: List[list], key_idx: List[int]):
    """Distinct key tuples in first-appearance order (NULL is an ordinary key value) -> list of row lists."""
    groups: Dict[tuple, List[list]] = {}
    order = []
    for r in rows:
        k = tuple(("\x00null",) if r[i] is None else (type(r[i]).__name__ == "str", r[i]) for i in key_idx)
        if k not in groups:
            groups[k] = []
            order.append(k)
        groups[k].append(r)
    return [groups[k] for k in order]


# ----------------------------------------------------------------------------------------------
# window functions over one ordered partition


def window_values(fn: str, part: List[list], arg_idx: Optional[int], params: list):
    """`part` = the partition's rows ALREADY in window order. Returns one value per row."""
    n = len(part)
    vals = [r[arg_idx] for r in part] if arg_idx is not None else [None] * n
    if fn in ("_row_number",):
        return [float(i + 1) for i in range(n)]
    if fn == "cumsum":
        out, acc = [], 0.0
        for v in vals:
            acc += v
            out.append(acc)
        return out
    if fn == "cumprod":
        out, acc = [], 1.0
        for v in vals:
            acc *= v
            out.append(acc)
        return out
    if fn == "cummax":
        out, acc = [], None
        for v in vals:
            acc = v if acc is None or v > acc else acc
            out.append(acc)
        return out
    if fn == "cummin":
        out, acc = [], None
        for v in vals:
            acc = v if acc is None or v < acc else acc
            out.append(acc)
        return out
    if fn == "cumcount":
        out, acc = [], 0
        for v in vals:
            if v is not None:
                acc += 1
            out.append(float(acc))
        return out
    if fn == "shift":
        k = params[0] if params else 1
        return [vals[i - k] if 0 <= i - k < n else None for i in range(n)]
    if fn == "first":
        return [vals[0]] * n
    if fn == "last":
        return [vals[-1]] * n
    if fn == "ffill":
        out, last = [], None
        for v in vals:
            last = v if v is not None else last
            out.append(last)
        return out
    if fn == "bfill":
        out, nxt = [None] * n, None
        for i in range(n - 1, -1, -1):
            nxt = vals[i] if vals[i] is not None else nxt
            out[i] = nxt
        return out
    if fn == "rank":
        # average rank of ties among the partition's values (position independent)
        out = []
        for v in vals:
            smaller = sum(1 for w in vals if w < v)
            equal = sum(1 for w in vals if w == v)
            out.append(smaller + (equal + 1) / 2.0)
        return out
    # unordered group aggregates broadcast to every row
    a = agg(fn, vals, n)
    return [a] * n


def accept(expected, got, eq) -> bool:
    """expected may be a set of acceptable values."""
    if isinstance(expected, (set, frozenset)):
        return any(eq(e, got) for e in expected)
    return eq(expected, got)
