"""Shared runner machinery: context, evidence, findings protocol, Hypothesis campaign wrapper.

Exit codes of a check process: 0 held (possibly KNOWN-FINDING lines), 1 at least one VIOLATION line,
2 harness error (traceback, never a VIOLATION line).
"""

from __future__ import annotations

import hashlib
import json
import math
import os
import sys
import time
import traceback
from typing import Any, Callable, Dict, Iterable, List, Optional

ROOT = os.path.dirname(os.path.dirname(os.path.abspath(__file__)))
# development aid (tools/mutate.sh, seeded-change evaluation): VERIF_SCRATCH=<dir> sends evidence and replay files of a run
# against a scratch copy of the library to <dir> instead of /verif (never set by a registered command)
EVIDENCE_DIR = os.path.join(os.environ["VERIF_SCRATCH"], "evidence") if os.environ.get("VERIF_SCRATCH") else os.path.join(ROOT, "evidence")
REPLAY_DIR = os.path.join(os.environ["VERIF_SCRATCH"], "replays") if os.environ.get("VERIF_SCRATCH") else os.path.join(ROOT, "replays")
FINDINGS_FILE = os.path.join(ROOT, "known_findings.json")


# ----------------------------------------------------------------------------------------------
# small helpers


def canon(obj) -> str:
    """Canonical JSON text of a plain-data case (used for hashing and replay files)."""
    return json.dumps(obj, sort_keys=True, default=_json_default, allow_nan=True)


def _json_default(o):
    try:
        import numpy

        if isinstance(o, numpy.generic):
            return o.item()
    except Exception:
        pass
    if isinstance(o, (set, frozenset)):
        return sorted(o, key=repr)
    if isinstance(o, tuple):
        return list(o)
    if isinstance(o, bytes):
        return o.decode("latin1")
    return repr(o)


def case_hash(obj) -> str:
    return hashlib.sha1(canon(obj).encode("utf8", "surrogatepass")).hexdigest()


def abbreviate(obj, limit=1500):
    """Plain-data rendering of a sample, cut to a readable size."""
    try:
        txt = canon(obj)
    except Exception:
        txt = repr(obj)
    if len(txt) <= limit:
        try:
            return json.loads(txt)
        except Exception:
            return txt
    return txt[:limit] + "...<cut>"


class Failure:
    """What an oracle returns when the property is violated on a case."""

    def __init__(self, msg: str, sig: Optional[Dict[str, Any]] = None, detail: Any = None):
        self.msg = msg
        self.sig = dict(sig or {})
        self.detail = detail

    def __repr__(self):
        return f"Failure({self.msg!r}, sig={self.sig!r})"


class HarnessError(Exception):
    """Raised when the machinery itself (oracle, reference, generator) is inconsistent."""


# ----------------------------------------------------------------------------------------------
# evidence


class Evidence:
    def __init__(self, pid: str, tier: str, seed: int):
        self.pid = pid
        self.tier = tier
        self.seed = seed
        self.level = "exploration"
        self.rule = ""
        self.assumptions: List[str] = []
        self.trusted_base: List[str] = []
        self.evaluations = 0
        self.nontrivial_hashes: set = set()
        self.samples: List[Any] = []
        self.max_samples = 5
        self.features: Dict[str, int] = {}
        self.counters: Dict[str, int] = {}
        self.extra: Dict[str, Any] = {}
        self.exhaustive: Optional[bool] = None
        self.known_findings_seen: List[str] = []
        self.violations = 0
        self.inconclusive: List[str] = []
        self.t0 = time.time()

    def note(self, case, nontrivial: bool, features: Iterable[str] = (), sample=None):
        """Record one executed oracle evaluation."""
        self.evaluations += 1
        for f in features:
            self.features[f] = self.features.get(f, 0) + 1
        if nontrivial:
            h = case_hash(case)
            if h not in self.nontrivial_hashes:
                self.nontrivial_hashes.add(h)
                if len(self.samples) < self.max_samples:
                    self.samples.append(abbreviate(sample if sample is not None else case))

    def count(self, key: str, n: int = 1):
        self.counters[key] = self.counters.get(key, 0) + n

    def to_part(self) -> dict:
        return {
            "evaluations": self.evaluations,
            "hashes": sorted(self.nontrivial_hashes),
            "samples": self.samples,
            "features": self.features,
            "counters": self.counters,
            "extra": self.extra,
            "known_findings_seen": self.known_findings_seen,
            "violations": self.violations,
            "inconclusive": self.inconclusive,
            "rule": self.rule,
            "assumptions": self.assumptions,
            "trusted_base": self.trusted_base,
            "exhaustive": self.exhaustive,
            "level": self.level,
        }

    def merge_part(self, part: dict):
        self.evaluations += part["evaluations"]
        self.nontrivial_hashes.update(part["hashes"])
        for s in part["samples"]:
            if len(self.samples) < self.max_samples:
                self.samples.append(s)
        for k, v in part["features"].items():
            self.features[k] = self.features.get(k, 0) + v
        for k, v in part["counters"].items():
            self.counters[k] = self.counters.get(k, 0) + v
        for k, v in part["extra"].items():
            if k not in self.extra:
                self.extra[k] = v
        for k in part["known_findings_seen"]:
            if k not in self.known_findings_seen:
                self.known_findings_seen.append(k)
        self.violations += part["violations"]
        for k in part["inconclusive"]:
            if k not in self.inconclusive:
                self.inconclusive.append(k)
        self.rule = part["rule"] or self.rule
        self.assumptions = part["assumptions"] or self.assumptions
        self.trusted_base = part["trusted_base"] or self.trusted_base
        if part.get("exhaustive") is not None:
            self.exhaustive = part["exhaustive"]
        self.level = part.get("level", self.level)

    def write(self):
        os.makedirs(EVIDENCE_DIR, exist_ok=True)
        cov = {
            "evaluations": int(self.evaluations),
            "distinct_nontrivial": int(len(self.nontrivial_hashes)),
            "rule": self.rule,
            "samples": self.samples if self.samples else ["<no non-trivial case generated>"],
            "feature_histogram": dict(sorted(self.features.items())),
            "counters": dict(sorted(self.counters.items())),
            "known_findings_seen": self.known_findings_seen,
            "inconclusive": self.inconclusive,
        }
        if self.trusted_base:
            cov["trusted_base"] = self.trusted_base
        if self.exhaustive is not None:
            cov["exhaustive"] = bool(self.exhaustive)
        cov.update(self.extra)
        doc = {
            "property_id": self.pid,
            "tier": self.tier,
            "seed": int(self.seed),
            "level": self.level,
            "coverage": cov,
            "assumptions": self.assumptions,
            "wall_s": round(time.time() - self.t0, 3),
            "violations": int(self.violations),
        }
        path = os.path.join(EVIDENCE_DIR, f"{self.pid}.json")
        tmp = path + ".tmp"
        with open(tmp, "w") as f:
            json.dump(json.loads(canon(doc)), f, indent=1, sort_keys=False)
            f.write("\n")
        os.replace(tmp, path)
        return path


# ----------------------------------------------------------------------------------------------
# known findings


class Findings:
    """Committed list of known findings; never written at run time."""

    def __init__(self, pid: str):
        self.pid = pid
        try:
            with open(FINDINGS_FILE) as f:
                allf = json.load(f)
        except FileNotFoundError:
            allf = []
        def _applies(e):
            p = e.get("property")
            return pid == p or (isinstance(p, list) and pid in p)

        self.entries = [e for e in allf if _applies(e)]
        self.open = [e for e in self.entries if e.get("status") == "open"]
        self.fixed = [e for e in self.entries if e.get("status") == "fixed"]
        self.still_failing: Dict[str, dict] = {}  # id -> entry (open entries whose replay still fails)

    def match(self, sig: Dict[str, Any]) -> Optional[dict]:
        """An open, still-failing entry whose signature is contained in the failure's signature."""
        for e in self.still_failing.values():
            es = e.get("signature") or {}
            if es and all(sig.get(k) == v for k, v in es.items()):
                return e
        return None

    def closed_flags(self) -> set:
        """Generator feature flags closed because their finding is still present."""
        r = set()
        for e in self.still_failing.values():
            for f in e.get("flags", []):
                r.add(f)
        return r


# ----------------------------------------------------------------------------------------------
# context + campaign


class Ctx:
    def __init__(self, pid: str, tier: str, seed: int, shard: int = 0, nshards: int = 1):
        self.pid = pid
        self.tier = tier
        self.base_seed = seed
        self.shard = shard
        self.nshards = nshards
        self.seed = seed if nshards == 1 else seed * 1000 + shard + 1
        self.ev = Evidence(pid, tier, seed)
        self.findings = Findings(pid)
        self.violation_lines: List[str] = []
        self.known_lines: List[str] = []
        self.closed: set = set()

    # ---- sizes
    def n(self, quick: int, thorough: int) -> int:
        """Number of examples for this process."""
        scale = float(os.environ.get("VERIF_SCALE", "1"))
        if self.tier == "quick":
            return max(1, int(quick * scale))
        return max(1, int(math.ceil(thorough * scale / self.nshards)))

    # ---- reporting
    def violation(self, failure: Failure, case, check: str = "main"):
        h = case_hash({"check": check, "case": case})[:16]
        d = os.path.join(REPLAY_DIR, self.pid)
        os.makedirs(d, exist_ok=True)
        path = os.path.join(d, f"{check}-{h}.json")
        doc = {
            "property": self.pid,
            "check": check,
            "case": case,
            "observed": failure.msg,
            "signature": failure.sig,
            "detail": abbreviate(failure.detail, 4000) if failure.detail is not None else None,
        }
        with open(path, "w") as f:
            f.write(canon(doc))
            f.write("\n")
        rel = os.path.relpath(path, ROOT)
        line = f"VIOLATION property={self.pid} replay={rel}"
        self.violation_lines.append(line)
        self.ev.violations += 1
        sys.stderr.write(f"[{self.pid}/{check}] {failure.msg}\n")
        return line

    def known(self, entry: dict):
        line = f"KNOWN-FINDING: property={self.pid} {entry['id']} {entry['title']}"
        if line not in self.known_lines:
            self.known_lines.append(line)
            self.ev.known_findings_seen.append(entry["id"])

    # ---- findings probing
    def probe_findings(self, replay_fn: Callable[[str, Any], Optional[Failure]], after_open: Optional[Callable[[set], None]] = None):
        """Re-run the replay of every open finding; fixed ones are regressions that must pass.
        after_open(closed_flags) is called between the two phases, so a check can switch off the regions of
        still-open findings before the regression replays of fixed ones run."""
        for e in self.findings.open:
            doc = load_replay(e["replay"])
            f = replay_fn(doc.get("check", "main"), doc["case"])
            if f is not None:
                self.findings.still_failing[e["id"]] = e
                self.known(e)
        self.closed = self.findings.closed_flags()
        if after_open is not None:
            after_open(set(self.closed))
        for e in self.findings.fixed:
            if not e.get("replay"):
                continue
            doc = load_replay(e["replay"])
            f = replay_fn(doc.get("check", "main"), doc["case"])
            self.ev.count("fixed_regressions_run")
            if f is not None:
                f.msg = f"regression of fixed finding {e['id']}: {f.msg}"
                self.violation(f, doc["case"], check=doc.get("check", "main"))

    # ---- hypothesis campaign
    def campaign(
        self,
        name: str,
        strategy,
        oracle: Callable[[Any], Optional[Failure]],
        max_examples: int,
        shrink_budget_s: Optional[float] = None,
        stateful: bool = False,
    ):
        """Drive `oracle` with cases from `strategy`. Failures matching a still-open known finding are
        counted and skipped; others are shrunk (bounded) and reported as VIOLATION."""
        import hypothesis
        from hypothesis import HealthCheck, Phase, given, settings

        if shrink_budget_s is None:
            shrink_budget_s = 45.0 if self.tier == "quick" else 240.0
        state = {"first_fail": None, "failed": {}, "best": None}

        def run_one(case):
            # NOTE: there must be exactly ONE raise site below — Hypothesis identifies "the same bug" by the
            # raise location, and a second site makes its replay look flaky, which disables shrinking.
            h = case_hash(case)
            f = state["failed"].get(h)
            if f is None:
                if state["first_fail"] is not None and time.time() - state["first_fail"] > shrink_budget_s:
                    return  # shrink budget used up: stop exploring, keep best failure so far
                f = oracle(case)
            if f is None:
                return
            e = self.findings.match(f.sig)
            if e is not None:
                self.ev.count(f"known_finding_hit:{e['id']}")
                self.known(e)
                return
            if state["first_fail"] is None:
                state["first_fail"] = time.time()
            state["failed"][h] = f
            size = len(canon(case))
            if state["best"] is None or size < state["best"][0]:
                state["best"] = (size, case, f)
            raise AssertionError(f.msg)

        st_settings = settings(
            max_examples=max_examples,
            deadline=None,
            database=None,
            derandomize=False,
            report_multiple_bugs=False,
            suppress_health_check=list(HealthCheck),
            phases=[Phase.generate, Phase.shrink],
            print_blob=False,
        )
        seed_val = (self.seed * 7919 + sum(ord(c) for c in name)) % (2**31)
        test = hypothesis.seed(seed_val)(st_settings(given(strategy)(run_one)))
        try:
            test()
        except AssertionError:
            pass
        except hypothesis.errors.Flaky:
            if state["best"] is None:
                raise
        except hypothesis.errors.FlakyFailure:
            if state["best"] is None:
                raise
        except BaseException:
            if state["best"] is None:
                raise
        if state["best"] is not None:
            _, case, f = state["best"]
            self.violation(f, case, check=name)
            return False
        return True


    # ---- hypothesis stateful campaign
    def machine_campaign(self, name: str, machine_cls, max_examples: int, step_count: int):
        """Run a RuleBasedStateMachine built on `MachineBase` below. The machine keeps a plain-data
        history; the smallest failing history becomes the replay file."""
        import hypothesis
        from hypothesis import HealthCheck, Phase, settings
        from hypothesis.stateful import run_state_machine_as_test

        sink: List[Any] = []
        ctx = self

        class Bound(machine_cls):  # type: ignore
            _ctx = ctx
            _sink = sink

        Bound.__name__ = machine_cls.__name__
        Bound.__qualname__ = machine_cls.__qualname__
        st_settings = settings(
            max_examples=max_examples,
            stateful_step_count=step_count,
            deadline=None,
            database=None,
            derandomize=False,
            report_multiple_bugs=False,
            suppress_health_check=list(HealthCheck),
            phases=[Phase.generate, Phase.shrink],
            print_blob=False,
        )
        seed_val = (self.seed * 7919 + sum(ord(c) for c in name)) % (2**31)
        try:
            run_state_machine_as_test(hypothesis.seed(seed_val)(Bound), settings=st_settings)
        except Violation:
            pass
        except BaseException:
            if not sink:
                raise
        if sink:
            size, hist, f = min(sink, key=lambda t: t[0])
            self.violation(f, hist, check=name)
            return False
        return True


class Violation(Exception):
    def __init__(self, failure: Failure):
        Exception.__init__(self, failure.msg)
        self.failure = failure


class MachineMixin:
    """Mixin for RuleBasedStateMachine subclasses used with Ctx.machine_campaign.

    Rules append plain-data ops to self.history and call self.fail(Failure) on a violated invariant.
    After a failure that matches a known finding the machine goes dead (no further checking), since
    model and implementation have diverged for a recorded reason."""

    _ctx: Any = None
    _sink: Any = None

    def init_machine(self):
        self.history: List[Any] = []
        self.dead = False
        self.nontrivial = False
        self.feats: set = set()

    def fail(self, failure: Failure):
        ctx = self._ctx
        if ctx is not None:
            e = ctx.findings.match(failure.sig)
            if e is not None:
                ctx.ev.count(f"known_finding_hit:{e['id']}")
                ctx.known(e)
                self.dead = True
                return
            self._sink.append((len(canon(self.history)), json.loads(canon(self.history)), failure))
        raise Violation(failure)

    def finish_machine(self):
        if self._ctx is not None and self.history:
            self._ctx.ev.note(self.history, self.nontrivial, sorted(self.feats))


def load_replay(path: str) -> dict:
    p = path if os.path.isabs(path) else os.path.join(ROOT, path)
    with open(p) as f:
        return json.load(f)


def finish(ctx: Ctx) -> int:
    for line in ctx.known_lines:
        print(line)
    for line in ctx.violation_lines:
        print(line)
    sys.stdout.flush()
    return 1 if ctx.violation_lines else 0


def format_exc() -> str:
    return traceback.format_exc()
