"""Method table for C05: one entry per row of data_algebra.op_catalog.methods_table.

Every entry carries, written from the `Term` docstrings (expr_rep.py), the catalogue's example
expression (Examples/Methods/data_algebra_catalog.ipynb) and numpy's documented meaning (the project's
stated reference for numeric functions, see the comments in sql_model.py):

* the argument columns (type, value pool = the DOCUMENTED DOMAIN, whether null / NaN / inf are inside the
  documented domain),
* literal parameters (finite choice lists),
* the expression spec (vp.spec form) and
* a reference function over Python scalars (row-wise methods) or lists (aggregates / window functions).

Nothing here imports an executor of data_algebra; references use `math` / `statistics` / `decimal` only.
A reference may return `AnyOf([...])` where the documentation leaves a choice.

kind:  "row"    value of a row depends on that row's arguments only           (catalogue class e)
       "agg"    one value per group, broadcast to the rows for classes e/g     (classes e[sum], g, p, up)
       "win"    one value per row from the ORDERED partition (order = unique row id) (class w)
"""

from __future__ import annotations

import decimal
import math
import statistics
from typing import Any, Callable, Dict, List, Optional, Sequence


class AnyOf:
    """Acceptable set of results."""

    def __init__(self, values):
        self.values = list(values)

    def __repr__(self):
        return f"AnyOf({self.values!r})"


class Labelling:
    """Marker: result column must be an injective labelling of the groups (only `_ngroup`)."""


# ----------------------------------------------------------------------------------------------
# value pools (small grids: ties and repeats are the norm, float arithmetic stays exact)


def _grid(lo, hi, step=0.25):
    n = int(round((hi - lo) / step))
    return [lo + i * step for i in range(n + 1)]


REAL = _grid(-4.0, 4.0)
POS = [v for v in REAL if v > 0]
NONNEG = [v for v in REAL if v >= 0]
NONZERO = [v for v in REAL if v != 0]
UNIT = _grid(-1.0, 1.0)
GE1 = _grid(1.0, 5.0)
GT_M1 = [v for v in REAL if v > -1]
INTFLOAT = [float(i) for i in range(-3, 4)]
# decimals k/1000 that are not a decimal tie at 0, 1 or 2 digits (round / around: half-even vs half-away
# is "subject to some rules", so exact ties are outside the documented domain)
MILLI = [
    k / 1000.0
    for k in range(-4000, 4001, 7)
    if not (abs(k) % 10 == 5 or abs(k) % 100 == 50 or abs(k) % 1000 == 500)
]
INT_SMALL = list(range(-3, 4))
INT_NONNEG = list(range(0, 8))
INT_POS = [1, 2, 3, 4]
STRS = ["a", "", "b", "ab", "abc", "hello", "a b", "Zq", "ccc"]
BOOLS = [True, False]
GROUPS = ["a", "b", "c"]


class Col:
    def __init__(self, name, typ, pool, null=False, nan=False, inf=False, boundary=(), distinct=False):
        self.distinct = distinct
        self.name = name
        self.typ = typ
        self.pool = list(pool)
        self.null = null
        self.nan = nan
        self.inf = inf
        self.boundary = list(boundary)


def F(name, pool=REAL, **kw):
    return Col(name, "float", pool, **kw)


def I(name, pool=INT_SMALL, **kw):
    return Col(name, "int", pool, **kw)


def S(name, pool=STRS, **kw):
    return Col(name, "str", pool, **kw)


def B(name, **kw):
    return Col(name, "bool", BOOLS, **kw)


class Variant:
    def __init__(self, shape, cols, expr, ref, params=None, backends=None, note=None):
        self.shape = shape
        self.cols: List[Col] = cols
        self.expr: Callable[[dict], Any] = expr
        self.ref: Callable = ref
        self.params: Dict[str, list] = params or {}
        self.backends = backends  # None = all
        self.note = note


class Entry:
    def __init__(self, op, op_class, expression, kind, variants, pg_neutral=True, skip=None, assumptions=()):
        self.op = op
        self.op_class = op_class
        self.expression = expression
        self.kind = kind
        self.variants: List[Variant] = variants
        self.pg_neutral = pg_neutral
        self.skip = skip  # (bucket, reason) when the row is enumerated but not checked
        self.assumptions = list(assumptions)

    @property
    def key(self):
        return (self.op, self.op_class, self.expression)

    def variant(self, shape) -> Variant:
        for v in self.variants:
            if v.shape == shape:
                return v
        raise KeyError(shape)


# ----------------------------------------------------------------------------------------------
# expression helpers


def c(n):
    return ["col", n]


def lit(v):
    return ["lit", v]


def call(op, *args):
    return ["call", op, list(args)]


def _isnull(v):
    return v is None


def strict(f):
    """Missing in -> missing out; only used where the documentation (docstring or the catalogue's recorded
    expectation on the nullable example column `z`) shows it."""

    def g(*a):
        if any(_isnull(x) for x in a):
            return None
        return f(*a)

    return g


def _b(v):
    return bool(v)


# ----------------------------------------------------------------------------------------------
# references: row-wise


def r_maximum(x, y):
    # "per row maximum of items and other (propogate missing)"
    if x is None or y is None:
        return None
    return max(x, y)


def r_minimum(x, y):
    if x is None or y is None:
        return None
    return min(x, y)


def r_fmax(x, y):
    # "per row fmax of items and other (ignore missing)"
    if x is None:
        return y
    if y is None:
        return x
    return max(x, y)


def r_fmin(x, y):
    if x is None:
        return y
    if y is None:
        return x
    return min(x, y)


def r_if_else(cnd, x, y):
    # "if_else(True, 1, 2) > 1, if_else(False, 1, 2) -> 2. None propagating behavior if_else(None, 1, 2) -> None"
    if cnd is None:
        return None
    return x if cnd else y


def r_where(cnd, x, y):
    # "numpy.where behavior: where(None, 1, 2) -> 2"
    if cnd is None:
        return y
    return x if cnd else y


def r_coalesce(x, y):
    # "Replace missing values with alternative"
    return y if x is None else x


def r_is_bad(x):
    # "bad (null, None, nan, or infinite)"
    return x is None or math.isnan(x) or math.isinf(x)


def r_sign(x):
    # "Return -1, 0, 1 as sign of item"
    return (x > 0) - (x < 0)


def r_round_digits(x, d):
    q = decimal.Decimal(1).scaleb(-d)
    return float(decimal.Decimal(repr(x)).quantize(q, rounding=decimal.ROUND_HALF_EVEN))


def r_arctanh(x):
    if x == 1.0:
        return math.inf  # numpy: arctanh(1) = inf
    if x == -1.0:
        return -math.inf
    return math.atanh(x)


def r_trimstr(s, start, stop):
    # "Trim string start (inclusive) to stop (exclusive)"
    return s[start:stop]


def r_as_str(v):
    if isinstance(v, float):
        return repr(v)
    return str(v)


# ----------------------------------------------------------------------------------------------
# references: aggregates over the list of a group's argument values (None = missing; skipped)


def _nn(vals):
    return [v for v in vals if v is not None]


def a_sum(vals):
    v = _nn(vals)
    if not v:
        return AnyOf([0, None])  # sum over no non-null values: accepted destination convention
    return math.fsum(v)


def a_mean(vals):
    v = _nn(vals)
    return math.fsum(v) / len(v) if v else None


def a_min(vals):
    v = _nn(vals)
    return min(v) if v else None


def a_max(vals):
    v = _nn(vals)
    return max(v) if v else None


def a_median(vals):
    v = _nn(vals)
    return statistics.median(v) if v else None


def a_var(vals):
    # "sample variance"
    v = _nn(vals)
    if len(v) < 2:
        return None
    m = math.fsum(v) / len(v)
    return math.fsum((x - m) ** 2 for x in v) / (len(v) - 1)


def a_std(vals):
    s = a_var(vals)
    return None if s is None else math.sqrt(s)


def a_count(vals):
    # "number of non-NA cells": NaN is a missing cell too
    return len([v for v in _nn(vals) if not (isinstance(v, float) and math.isnan(v))])


def a_size(vals):
    # "number of items"
    return len(vals)


def a_nunique(vals):
    # "number of unique items" (missing is not an item: Pandas and SQL COUNT(DISTINCT) agree)
    return len(set(_nn(vals)))


def a_all(vals):
    return all(_b(v) for v in vals)


def a_any(vals):
    return any(_b(v) for v in vals if v is not None)


def a_any_value(vals):
    return AnyOf(sorted(set(vals)))


# ----------------------------------------------------------------------------------------------
# references: window functions over the ordered list of a partition's values -> list


def w_row_number(vals):
    return [i + 1 for i in range(len(vals))]


def w_cumsum(vals):
    out, s = [], 0.0
    for v in vals:
        s += v
        out.append(s)
    return out


def w_cumprod(vals):
    out, s = [], 1.0
    for v in vals:
        s *= v
        out.append(s)
    return out


def w_cummax(vals):
    out = []
    for v in vals:
        out.append(v if not out else max(out[-1], v))
    return out


def w_cummin(vals):
    out = []
    for v in vals:
        out.append(v if not out else min(out[-1], v))
    return out


def w_cumcount(vals):
    # "cumulative number of non-NA cells"
    out, n = [], 0
    for v in vals:
        if v is not None:
            n += 1
        out.append(n)
    return out


def w_ffill(vals):
    out, last = [], None
    for v in vals:
        if v is not None:
            last = v
        out.append(last)
    return out


def w_bfill(vals):
    return list(reversed(w_ffill(list(reversed(vals)))))


def w_first(vals):
    return [vals[0]] * len(vals)


def w_last(vals):
    return [vals[-1]] * len(vals)


def w_rank(vals):
    # values are distinct inside a partition by construction (tie rule is undocumented)
    return [1 + sum(1 for u in vals if u < v) for v in vals]


def w_shift(vals, periods=1):
    # pandas convention ("pandas shift"): positive periods = value from `periods` rows EARLIER
    n = len(vals)
    return [vals[i - periods] if 0 <= i - periods < n else None for i in range(n)]


# ----------------------------------------------------------------------------------------------
# the table

ENTRIES: List[Entry] = []


def add(*a, **kw):
    e = Entry(*a, **kw)
    ENTRIES.append(e)
    return e


def _row(op, expression, variants, **kw):
    return add(op, "e", expression, "row", variants, **kw)


def _binop(op, expression, ref, ycol=None, xcol=None, extra_variants=()):
    vs = [
        Variant(
            "float_float",
            [xcol or F("x"), ycol or F("y")],
            lambda p, op=op: call(op, c("x"), c("y")),
            lambda x, y, ref=ref: ref(x, y),
        )
    ]
    # compound operands: a sum on the left, a product on the right (never zero when y is not) - the operator's SQL
    # formatter has to keep each operand one unit
    vs.append(
        Variant(
            "compound_left",
            [xcol or F("x"), ycol or F("y"), F("z")],
            lambda p, op=op: call(op, call("+", c("x"), c("z")), c("y")),
            lambda x, y, z, ref=ref: ref(x + z, y),
        )
    )
    vs.append(
        Variant(
            "compound_right",
            [xcol or F("x"), ycol or F("y")],
            lambda p, op=op: call(op, c("x"), call("*", c("y"), c("y"))),
            lambda x, y, ref=ref: ref(x, y * y),
        )
    )
    vs.extend(extra_variants)
    return _row(op, expression, vs)


def _unary(op, expression, col, ref, colname=None, **kw):
    n = col.name
    return _row(
        op,
        expression,
        [Variant("col", [col], lambda p, op=op, n=n: call(op, c(n)), ref)],
        **kw,
    )


NO_NULL_ARITH = "arithmetic / comparison / logic operators have no docstring: null operands are not generated"

# --- comparisons (null operands excluded: documented caveat, Pandas False vs SQL NULL) -------------
for _op, _f in (
    ("!=", lambda x, y: x != y),
    ("<", lambda x, y: x < y),
    ("<=", lambda x, y: x <= y),
    (">", lambda x, y: x > y),
    (">=", lambda x, y: x >= y),
):
    _extra = []
    if _op == "!=":
        _extra = [
            Variant("str_str", [S("x", STRS), S("y", STRS)], lambda p: call("!=", c("x"), c("y")), lambda x, y: x != y)
        ]
    _binop(_op, f"x {_op} y", _f, extra_variants=_extra)
_binop(
    "==",
    "x == y",
    lambda x, y: x == y,
    extra_variants=[
        Variant("str_str", [S("x", STRS), S("y", STRS)], lambda p: call("==", c("x"), c("y")), lambda x, y: x == y)
    ],
)
_row("==", "not a", [Variant("col", [B("a")], lambda p: call("not", c("a")), lambda a: not a)])
_row("and", "a and b", [Variant("col", [B("a"), B("b")], lambda p: call("and", c("a"), c("b")), lambda a, b: a and b)])
_row("or", "a or b", [Variant("col", [B("a"), B("b")], lambda p: call("or", c("a"), c("b")), lambda a, b: a or b)])

# --- arithmetic --------------------------------------------------------------------------------------
_binop("+", "x + y", lambda x, y: x + y)
_binop("-", "x - y", lambda x, y: x - y)
_binop("*", "x * y", lambda x, y: x * y)
_row("-", "-x", [Variant("col", [F("x")], lambda p: call("neg", c("x")), lambda x: -x)])
# `/`, `%/%`: float operands, non-zero divisor (int/int truncates on SQL: destination convention)
_binop("/", "x / y", lambda x, y: x / y, ycol=F("y", NONZERO))
_binop("%/%", "x %/% y", lambda x, y: x / y, ycol=F("y", NONZERO))
_binop(
    "//",
    "row_id // q",
    lambda x, y: float(math.floor(x / y)),
    ycol=F("y", NONZERO),
    extra_variants=[
        Variant(
            "int_int",
            [I("x", INT_NONNEG), I("y", INT_POS)],
            lambda p: call("//", c("x"), c("y")),
            lambda x, y: x // y,
        )
    ],
)
_row(
    "**",
    "x ** y",
    [Variant("float_float", [F("x", POS), F("y", _grid(-2.0, 2.0, 0.5))], lambda p: call("**", c("x"), c("y")), lambda x, y: math.pow(x, y))],
    assumptions=["`**`: base > 0 (negative base with fractional exponent is a domain error; 0 ** negative is a pole)"],
)
# `%`, mod, remainder: non-negative int dividend, positive int divisor (SQLite `%` casts to INTEGER and
# takes the dividend's sign; "we are just going to send it out and use destination semantics")
_row(
    "%",
    "row_id % q",
    [Variant("int_int", [I("x", INT_NONNEG), I("y", INT_POS)], lambda p: call("%", c("x"), c("y")), lambda x, y: x % y)],
)
for _op in ("mod", "remainder"):
    _row(
        _op,
        f"row_id.{_op}(2)",
        [
            Variant(
                "int_lit",
                [I("x", INT_NONNEG)],
                lambda p, _op=_op: call(_op, c("x"), lit(p["m"])),
                lambda x, m: x % m,
                params={"m": [2, 1, 3, 4]},
            )
        ],
    )

# --- numeric functions (numpy meaning; null only where the catalogue example column is `z`) ---------
_unary("abs", "z.abs()", F("z", null=True), strict(abs))
_unary("sign", "z.sign()", F("z", null=True), strict(r_sign))
_unary("ceil", "y.ceil()", F("y"), lambda y: float(math.ceil(y)))
_unary("ceil", "z.ceil()", F("z", null=True), strict(lambda z: float(math.ceil(z))))
_unary("floor", "y.floor()", F("y"), lambda y: float(math.floor(y)))
_unary("floor", "z.floor()", F("z", null=True), strict(lambda z: float(math.floor(z))))
_unary("sin", "x.sin()", F("x"), math.sin)
_unary("cos", "x.cos()", F("x"), math.cos)
_unary("sinh", "x.sinh()", F("x"), math.sinh)
_unary("cosh", "x.cosh()", F("x"), math.cosh)
_unary("tanh", "x.tanh()", F("x"), math.tanh)
_unary("arcsin", "x.arcsin()", F("x", UNIT, boundary=[-1.0, 1.0]), math.asin)
_unary("arccos", "x.arccos()", F("x", UNIT, boundary=[-1.0, 1.0]), math.acos)
_unary("arctan", "x.arctan()", F("x"), math.atan)
_unary("arcsinh", "x.arcsinh()", F("x"), math.asinh)
_unary("arccosh", "x.arccosh()", F("x", GE1, boundary=[1.0]), math.acosh)
_unary("arctanh", "x.arctanh()", F("x", UNIT, boundary=[-1.0, 1.0]), r_arctanh)
_row(
    "arctan2",
    "x.arctan2(y)",
    [Variant("float_float", [F("x"), F("y")], lambda p: call("arctan2", c("x"), c("y")), lambda x, y: math.atan2(x, y))],
)
_unary("exp", "x.exp()", F("x"), math.exp)
_unary("expm1", "y.expm1()", F("y"), math.expm1)
_unary("log", "x.log()", F("x", POS, boundary=[0.25, 1.0]), math.log)
_unary("log10", "x.log10()", F("x", POS, boundary=[0.25, 1.0]), math.log10)
_unary("log1p", "x.log1p()", F("x", GT_M1, boundary=[-0.75, 0.0]), math.log1p)
_unary("sqrt", "x.sqrt()", F("x", NONNEG, boundary=[0.0]), math.sqrt)
_unary("round", "y.round()", F("y", MILLI), lambda y: r_round_digits(y, 0))
_row(
    "around",
    "y.around(2)",
    [
        Variant(
            "col_digits",
            [F("y", MILLI)],
            lambda p: call("around", c("y"), lit(p["d"])),
            lambda y, d: r_round_digits(y, d),
            params={"d": [2, 0, 1]},
        )
    ],
)
_row(
    "as_int64",
    "y.as_int64()",
    [
        Variant("float", [F("y", INTFLOAT)], lambda p: call("as_int64", c("y")), lambda y: int(y)),
        Variant("int", [I("y")], lambda p: call("as_int64", c("y")), lambda y: int(y)),
    ],
    assumptions=["as_int64: integral values only (rounding rule of a float -> int cast is undocumented)"],
)
_row(
    "as_str",
    "y.as_str()",
    [
        Variant("str", [S("y")], lambda p: call("as_str", c("y")), r_as_str),
        Variant("int", [I("y")], lambda p: call("as_str", c("y")), r_as_str),
    ],
    assumptions=["as_str: str and int columns only (the text format of a float is engine defined and undocumented)"],
)

# --- min / max pairs (documented null rules) --------------------------------------------------------
for _op, _f in (("maximum", r_maximum), ("minimum", r_minimum), ("fmax", r_fmax), ("fmin", r_fmin)):
    _row(
        _op,
        f"row_id.{_op}(x)",
        [
            Variant(
                "float_float",
                [F("x", null=True), F("y", null=True)],
                lambda p, _op=_op: call(_op, c("x"), c("y")),
                _f,
            ),
            Variant(
                "int_float",
                [I("x"), F("y", null=True)],
                lambda p, _op=_op: call(_op, c("x"), c("y")),
                _f,
            ),
        ],
    )

# --- selection -------------------------------------------------------------------------------------
for _op, _f in (("if_else", r_if_else), ("where", r_where)):
    _row(
        _op,
        f"a.{_op}(x, y)",
        [
            Variant(
                "float",
                [B("a", null=True), F("x"), F("y")],
                lambda p, _op=_op: call(_op, c("a"), c("x"), c("y")),
                _f,
            ),
            Variant(
                "str",
                [B("a", null=True), S("x"), S("y")],
                lambda p, _op=_op: call(_op, c("a"), c("x"), c("y")),
                _f,
            ),
            Variant(
                "lit",
                [B("a", null=True)],
                lambda p, _op=_op: call(_op, c("a"), lit(1), lit(2)),
                lambda a, _f=_f: _f(a, 1, 2),
            ),
            # branches of pure bool dtype with a missing condition (the result must still be missing / else-branch)
            Variant(
                "bool_branches",
                [B("a", null=True), B("x"), B("y")],
                lambda p, _op=_op: call(_op, c("a"), c("x"), c("y")),
                _f,
            ),
            # compound conditions: the condition text is reused inside the translation (CASE WHEN c ... WHEN NOT c ...)
            Variant(
                "and_cond",
                [B("a"), B("b"), F("x"), F("y")],
                lambda p, _op=_op: call(_op, call("and", c("a"), c("b")), c("x"), c("y")),
                lambda a, b, x, y, _f=_f: _f(bool(a) and bool(b), x, y),
            ),
            Variant(
                "or_cond",
                [B("a"), B("b"), F("x"), F("y")],
                lambda p, _op=_op: call(_op, call("or", c("a"), c("b")), c("x"), c("y")),
                lambda a, b, x, y, _f=_f: _f(bool(a) or bool(b), x, y),
            ),
            Variant(
                "cmp_cond",
                [F("u"), F("v"), F("x"), F("y")],
                lambda p, _op=_op: call(_op, call(">", c("u"), c("v")), c("x"), c("y")),
                lambda u, v, x, y, _f=_f: _f(u > v, x, y),
            ),
        ],
    )

# --- null / nan / inf tests ---------------------------------------------------------------------------
_row(
    "is_null",
    "z.is_null()",
    [
        Variant("float", [F("z", null=True)], lambda p: call("is_null", c("z")), lambda z: z is None),
        Variant("str", [S("z", null=True)], lambda p: call("is_null", c("z")), lambda z: z is None),
    ],
)
_row(
    "is_bad",
    "z.is_bad()",
    [Variant("float", [F("z", null=True, nan=True, inf=True)], lambda p: call("is_bad", c("z")), r_is_bad)],
    pg_neutral=False,
)
_row(
    "is_nan",
    "y.is_nan()",
    [Variant("float", [F("y", nan=True)], lambda p: call("is_nan", c("y")), lambda y: math.isnan(y))],
    pg_neutral=False,
    assumptions=["is_nan: null inputs not generated (Pandas float columns cannot tell null from NaN; docstring silent)"],
)
_row(
    "is_inf",
    "y.is_inf()",
    [Variant("float", [F("y", inf=True)], lambda p: call("is_inf", c("y")), lambda y: math.isinf(y))],
    pg_neutral=False,
    assumptions=["is_inf: null inputs not generated (docstring silent)"],
)

# --- coalesce ---------------------------------------------------------------------------------------
_CO_LITS = [2, 0, -1, 2.5]
_row(
    "coalesce",
    "z %?% 2",
    [
        Variant("col_lit", [F("z", null=True)], lambda p: call("%?%", c("z"), lit(p["v"])), lambda z, v: r_coalesce(z, v), params={"v": _CO_LITS}),
        Variant("col_col", [F("z", null=True), F("w", null=True)], lambda p: call("%?%", c("z"), c("w")), r_coalesce),
    ],
)
_row(
    "coalesce",
    "z.coalesce(2)",
    [
        Variant("col_lit", [F("z", null=True)], lambda p: call("coalesce", c("z"), lit(p["v"])), lambda z, v: r_coalesce(z, v), params={"v": _CO_LITS}),
        Variant("col_col", [F("z", null=True), F("w", null=True)], lambda p: call("coalesce", c("z"), c("w")), r_coalesce),
        Variant("str_lit", [S("z", null=True)], lambda p: call("coalesce", c("z"), lit(p["v"])), lambda z, v: r_coalesce(z, v), params={"v": ["q", ""]}),
        # no column at all: the value is the first literal on every row (needs a carrier column for the row count)
        Variant("lit_lit", [I("k")], lambda p: call("coalesce", lit(p["u"]), lit(p["v"])), lambda k, u, v: u, params={"u": [1, 0], "v": [2]}),
    ],
)
_row(
    "coalesce",
    "z.coalesce_0()",
    [Variant("col", [F("z", null=True)], lambda p: call("coalesce_0", c("z")), lambda z: r_coalesce(z, 0))],
)

# --- strings ------------------------------------------------------------------------------------------
_row(
    "concat",
    "g.concat(s2)",
    [Variant("str_str", [S("s"), S("t")], lambda p: call("concat", c("s"), c("t")), lambda s, t: s + t)],
)
_row(
    "concat",
    'g %+% "_" %+% s2',
    [
        Variant(
            "str_lit_str",
            [S("s"), S("t")],
            lambda p: call("%+%", call("%+%", c("s"), lit(p["sep"])), c("t")),
            lambda s, t, sep: s + sep + t,
            params={"sep": ["_", "", " - "]},
        )
    ],
)
_row(
    "trimstr",
    "g.trimstr(0, 2)",
    [
        Variant(
            "start0",
            [S("s")],
            lambda p: call("trimstr", c("s"), lit(0), lit(p["stop"])),
            lambda s, stop: r_trimstr(s, 0, stop),
            params={"stop": [2, 1, 3, 5]},
        ),
        Variant(
            "start_pos",
            [S("s")],
            lambda p: call("trimstr", c("s"), lit(p["start"]), lit(p["start"] + p["len"])),
            lambda s, start, len: r_trimstr(s, start, start + len),
            params={"start": [1, 2], "len": [1, 2, 3]},
        ),
    ],
)
_MAPS = [
    [["a", 1], ["b", 2], ["z", 26]],
    [["a", 5]],
    [["ab", -1], ["", 7]],
]
_row(
    "mapv",
    'g.mapv({"a": 1, "b": 2, "z": 26}, 0)',
    [
        Variant(
            "str_int",
            [S("s")],
            lambda p: call("mapv", c("s"), ["dict", p["map"]], lit(p["dflt"])),
            lambda s, map, dflt: dict((k, v) for k, v in map).get(s, dflt),
            params={"map": _MAPS, "dflt": [0, -9]},
        )
    ],
)
_SETS_I = [[1, 3], [0], [2, 5, 1], [-1, 0, 1]]
_SETS_S = [["a", "b"], [""], ["hello", "zz"]]
_row(
    "is_in",
    "row_id.is_in({1, 3})",
    [
        Variant("int", [I("k")], lambda p: call("is_in", c("k"), ["list", p["set"]]), lambda k, set: k in set, params={"set": _SETS_I}),
        Variant("str", [S("s")], lambda p: call("is_in", c("s"), ["list", p["set"]]), lambda s, set: s in set, params={"set": _SETS_S}),
    ],
)

# --- aggregates ---------------------------------------------------------------------------------------
AGG_NULL = "aggregates skip missing values (Pandas and SQL agree; count docstring: 'non-NA cells')"


def _agg(op, cls, expression, col, ref, **kw):
    n = col.name
    return add(op, cls, expression, "agg", [Variant("col", [col], lambda p, op=op, n=n: call(op, c(n)), ref)], **kw)


add("sum", "e", "x.sum()", "agg", [Variant("col", [F("x", null=True)], lambda p: call("sum", c("x")), a_sum)])
for _cls in ("g", "p"):
    add("_size", _cls, "_size()", "agg", [Variant("noarg", [], lambda p: call("_size"), a_size)])
    _agg("count", _cls, "z.count()", F("z", null=True, nan=True), a_count)  # NaN is a missing cell ("non-NA cells")
    _agg("max", _cls, "x.max()", F("x", null=True), a_max)
    _agg("mean", _cls, "x.mean()", F("x", null=True), a_mean)
    _agg("median", _cls, "x.median()", F("x", null=True), a_median)
    _agg("min", _cls, "x.min()", F("x", null=True), a_min)
    _agg("nunique", _cls, "x.nunique()", F("x", null=True), a_nunique)
    _agg("size", _cls, "x.size()", F("x", null=True), a_size)
    _agg("std", _cls, "x.std()", F("x", null=True), a_std)
    _agg("var", _cls, "x.var()", F("x", null=True), a_var)
    _agg("sum", _cls, "x.sum()", F("x", null=True), a_sum)
    add("sum", _cls, "(1).sum()", "agg", [Variant("lit", [], lambda p: call("sum", lit(1)), lambda vals: len(vals))])
_agg("all", "p", "a.all()", B("a"), a_all)
_agg("any", "p", "a.any()", B("a", null=True), a_any)  # a missing value is "not true" on every backend (all() differs: caveat)
_agg("any_value", "up", "x.any_value()", F("x"), a_any_value)
add(
    "_ngroup",
    "g",
    "_ngroup()",
    "agg",
    [Variant("noarg", [], lambda p: call("_ngroup"), lambda vals: Labelling())],
)
add(
    "_count",
    "g",
    "_count()",
    "agg",
    [],
    skip=("not_checked_undocumented", "zero-argument `_count()` has no docstring and no example text giving it a meaning"),
)

# --- ordered window functions ------------------------------------------------------------------------
_REV = {"reverse": [False, True]}


def _win(op, expression, col, ref, **kw):
    n = col.name
    return add(
        op,
        "w",
        expression,
        "win",
        [Variant("col", [col], lambda p, op=op, n=n: call(op, c(n)), lambda vals, reverse=False, ref=ref: ref(vals), params=dict(_REV))],
        **kw,
    )


add("_row_number", "w", "_row_number()", "win", [Variant("noarg", [], lambda p: call("_row_number"), lambda vals, reverse=False: w_row_number(vals), params=dict(_REV))])
_win("bfill", "z.bfill()", F("z", null=True), w_bfill)
_win("ffill", "z.ffill()", F("z", null=True), w_ffill)
_win("cumcount", "z.cumcount()", F("z", null=True), w_cumcount)
_win("cummax", "x.cummax()", F("x"), w_cummax)
_win("cummin", "x.cummin()", F("x"), w_cummin)
_win("cumprod", "x.cumprod()", F("x", _grid(-2.0, 2.0, 0.5)), w_cumprod)
_win("cumsum", "x.cumsum()", F("x"), w_cumsum)
_win("first", "x.first()", F("x"), w_first)
_win("last", "x.last()", F("x"), w_last)
_win("rank", "x.rank()", F("x", distinct=True), w_rank)
add(
    "shift",
    "w",
    "x.shift()",
    "win",
    [
        Variant("default", [F("x")], lambda p: call("shift", c("x")), lambda vals, reverse=False: w_shift(vals, 1), params=dict(_REV)),
        Variant(
            "periods",
            [F("x")],
            lambda p: call("shift", c("x"), lit(p["periods"])),
            lambda vals, periods, reverse=False: w_shift(vals, periods),
            params={"periods": [1, 2, -1, -2], "reverse": [False, True]},
        ),
    ],
)

# --- rows enumerated but not checked ---------------------------------------------------------------------
_DT_REASON = "date/time method: reference semantics are locale / engine defined (week numbering, formats, time zones)"
for _op, _ex in (
    ("base_Sunday", "date_col_1.base_Sunday()"),
    ("date_diff", "date_col_0.date_diff(date_col_1)"),
    ("datetime_to_date", "datetime_col_0.datetime_to_date()"),
    ("dayofmonth", "date_col_0.dayofmonth()"),
    ("dayofweek", "date_col_0.dayofweek()"),
    ("dayofyear", "date_col_0.dayofyear()"),
    ("format_date", "date_col_0.format_date()"),
    ("format_datetime", "datetime_col_0.format_datetime()"),
    ("month", "date_col_0.month()"),
    ("parse_date", "str_date_col.parse_date()"),
    ("parse_datetime", "str_datetime_col.parse_datetime()"),
    ("quarter", "date_col_0.quarter()"),
    ("timestamp_diff", "datetime_col_0.timestamp_diff(datetime_col_1)"),
    ("weekofyear", "date_col_0.weekofyear()"),
    ("year", "date_col_0.year()"),
):
    add(_op, "e", _ex, "row", [], skip=("not_checked_date_time", _DT_REASON))
add("_uniform", "u", "_uniform()", "row", [], skip=("not_checked_random", "random output: no per-row value to compare"))


BY_KEY: Dict[tuple, Entry] = {e.key: e for e in ENTRIES}
assert len(BY_KEY) == len(ENTRIES), "duplicate catalogue key in method table"


GLOBAL_ASSUMPTIONS = [
    NO_NULL_ARITH,
    "comparisons / and / or / not / == / != / concat / is_in / mapv: null operands not generated (documented caveat: Pandas False / 'nan' text vs SQL NULL)",
    "numeric functions without a null statement in their docstring get null arguments only where the catalogue's own example column is the nullable `z` (abs, sign, ceil, floor)",
    "NaN is generated only for is_nan / is_bad, +-inf only for is_inf / is_bad",
    "round / around: decimal ties (exact .5 at the rounded digit) are outside the domain",
    "`/`, `%/%`, `//`: float operands with a non-zero divisor (plus non-negative int // positive int); `%`, mod, remainder: non-negative int dividend, positive int divisor",
    AGG_NULL,
    "sum over a group without non-null values may be 0 or NULL",
    "any_value may be any member of the group (non-null members only are generated)",
    "cumsum / cummax / cummin / cumprod / first / last / rank / shift: no nulls in the argument (docstrings silent; Pandas and SQL differ at the null position)",
    "rank: distinct values inside a partition (tie rule undocumented)",
    "partition / group keys are non-null strings; the order column is a unique int row id (total order)",
]
