"""Plain-data program specs and their realisation as data_algebra objects / data frames.

case   := {"tables": {name: {"cols": [[name, type], ...], "rows": [[cell...]...]}},
           "nodes": [node...], "root": id, "expr_mode": "text"|"object"}
node   := {"op":"table","name":t}
        | {"op":"extend","src":i,"ops":[[col,expr]...],"partition_by":[..]|1,"order_by":[..],"reverse":[..]}
        | {"op":"project","src":i,"ops":[[col,expr]...],"group_by":[..]}
        | {"op":"select_rows","src":i,"expr":expr}
        | {"op":"select_columns"|"drop_columns","src":i,"cols":[..]}
        | {"op":"rename_columns"|"map_columns","src":i,"mapping":[[k,v]...]}
        | {"op":"order_rows","src":i,"cols":[..],"reverse":[..],"limit":n|None}
        | {"op":"natural_join","a":i,"b":j,"on":[[ka,kb]...],"jointype":s,"check":bool}
        | {"op":"concat_rows","a":i,"b":j,"id_column":s|None,"a_name":s,"b_name":s}
        | {"op":"convert_records","src":i,"record_map":rm}
rm     := {"blocks_in": rs|None, "blocks_out": rs|None, "strict": bool}
rs     := {"control_table": {"cols":[..], "rows":[[..]..]}, "record_keys":[..], "control_table_keys":[..]}
expr   := ["col",name] | ["lit",value] | ["call",op,[expr...]] | ["list",[values]] | ["dict",[[k,v]...]]
types  := "int" | "float" | "str" | "bool"
"""

from __future__ import annotations

import copy
from typing import Any, Dict, List, Optional

INFIX = {"+", "-", "*", "/", "//", "%", "**", "==", "!=", "<", "<=", ">", ">=", "and", "or", "%+%", "%?%", "%/%"}
INFIX_METHOD = {
    "==": "__eq__",
    "!=": "__ne__",
    "<": "__lt__",
    "<=": "__le__",
    ">": "__gt__",
    ">=": "__ge__",
    "+": "__add__",
    "-": "__sub__",
    "*": "__mul__",
    "/": "__truediv__",
    "//": "__floordiv__",
    "%": "__mod__",
    "**": "__pow__",
    "%+%": "concat",
    "%?%": "coalesce",
    "%/%": "float_divide",
}
ZERO_ARG_FNS = {"_row_number", "_size", "_count", "_ngroup", "_uniform"}


# ----------------------------------------------------------------------------------------------
# expressions


def lit_text(v) -> str:
    if isinstance(v, bool):
        return "True" if v else "False"
    if v is None:
        return "None"
    if isinstance(v, float):
        r = repr(v)
        if r in ("inf", "-inf", "nan"):
            raise ValueError("non-finite literal has no text form")
        return r
    if isinstance(v, int):
        return repr(v)
    if isinstance(v, str):
        return repr(v)
    raise TypeError(type(v))


def expr_text(e) -> str:
    """Render an expression spec as DSL text (fully parenthesised, so precedence never matters)."""
    k = e[0]
    if k == "col":
        return e[1]
    if k == "lit":
        v = e[1]
        t = lit_text(v)
        if isinstance(v, (int, float)) and not isinstance(v, bool) and v < 0:
            return "(" + t + ")"
        return t
    if k == "list":
        return "[" + ", ".join(lit_text(v) for v in e[1]) + "]"
    if k == "dict":
        return "{" + ", ".join(lit_text(a) + ": " + lit_text(b) for a, b in e[1]) + "}"
    if k == "call":
        op, args = e[1], e[2]
        if op in INFIX and len(args) == 2:
            return "(" + expr_text(args[0]) + " " + op + " " + expr_text(args[1]) + ")"
        if op in ("and", "or") and len(args) > 2:
            # an n-ary chain `a and b and c`: the parser builds ONE expression with n arguments
            return "(" + (" " + op + " ").join(expr_text(a) for a in args) + ")"
        if op == "neg":
            return "(-" + expr_text(args[0]) + ")"
        if op == "not":
            return "(not " + expr_text(args[0]) + ")"
        if op in ZERO_ARG_FNS and len(args) == 0:
            return op + "()"
        recv = expr_text(args[0])
        if args[0][0] == "lit":
            recv = "(" + lit_text(args[0][1]) + ")"
        return recv + "." + op + "(" + ", ".join(expr_text(a) for a in args[1:]) + ")"
    raise ValueError(f"bad expr {e!r}")


def expr_obj(e):
    """Build the same expression through the Term object API (what `col('x') + 1` does)."""
    import data_algebra.expr_rep as er

    k = e[0]
    if k == "col":
        return er.ColumnReference(e[1])
    if k == "lit":
        return er.Value(e[1])
    if k == "list":
        return er.ListTerm([er.Value(v) for v in e[1]])
    if k == "dict":
        return er.DictTerm({a: b for a, b in e[1]})
    if k == "call":
        op, args = e[1], e[2]
        if op in ("and", "or") and len(args) >= 2:
            return er.kop_expr(op, [expr_obj(a) for a in args], inline=True, method=False)
        if op in INFIX_METHOD and len(args) == 2:
            return getattr(expr_obj(args[0]), INFIX_METHOD[op])(expr_obj(args[1]))
        if op == "neg":
            return expr_obj(args[0]).__neg__()
        if op == "not":
            return expr_obj(args[0]).__eq__(er.Value(False))
        if op in ZERO_ARG_FNS and len(args) == 0:
            return er.Expression(op=op, args=[])
        recv = expr_obj(args[0])
        rest = [expr_obj(a) for a in args[1:]]
        return getattr(recv, op)(*rest)
    raise ValueError(f"bad expr {e!r}")


def expr_cols(e, acc=None) -> set:
    if acc is None:
        acc = set()
    if e[0] == "col":
        acc.add(e[1])
    elif e[0] == "call":
        for a in e[2]:
            expr_cols(a, acc)
    return acc


def expr_ops(e, acc=None) -> set:
    if acc is None:
        acc = set()
    if e[0] == "call":
        acc.add(e[1])
        for a in e[2]:
            expr_ops(a, acc)
    return acc


def rename_expr(e, mp: Dict[str, str]):
    if e[0] == "col":
        return ["col", mp.get(e[1], e[1])]
    if e[0] == "call":
        return ["call", e[1], [rename_expr(a, mp) for a in e[2]]]
    return e


def realise_expr(e, mode: str):
    return expr_text(e) if mode == "text" else expr_obj(e)


# ----------------------------------------------------------------------------------------------
# record maps


def build_record_spec(rs):
    import pandas
    from data_algebra.cdata import RecordSpecification

    ct = pandas.DataFrame({c: [r[i] for r in rs["control_table"]["rows"]] for i, c in enumerate(rs["control_table"]["cols"])})
    return RecordSpecification(
        ct,
        record_keys=list(rs["record_keys"]),
        control_table_keys=list(rs["control_table_keys"]),
        strict=rs.get("strict", True),
    )


def build_record_map(rm):
    from data_algebra.cdata import RecordMap

    bi = build_record_spec(rm["blocks_in"]) if rm.get("blocks_in") is not None else None
    bo = build_record_spec(rm["blocks_out"]) if rm.get("blocks_out") is not None else None
    return RecordMap(blocks_in=bi, blocks_out=bo, strict=rm.get("strict", True))


# ----------------------------------------------------------------------------------------------
# pipelines


def build_node(nd, built: Dict[int, Any], case, mode: str, table_cols: Optional[Dict[str, List[str]]] = None):
    """Apply one node spec through the public builder methods."""
    from data_algebra.view_representations import TableDescription

    op = nd["op"]
    if op == "table":
        cols = (table_cols or {}).get(nd["name"])
        if cols is None:
            cols = [c[0] for c in case["tables"][nd["name"]]["cols"]]
        return TableDescription(table_name=nd["name"], column_names=list(cols))
    if op == "extend":
        src = built[nd["src"]]
        ops = {k: realise_expr(e, mode) for k, e in nd["ops"]}
        kw = {}
        pb = nd.get("partition_by")
        if pb == 1 or pb:
            kw["partition_by"] = pb if pb == 1 else list(pb)
        if nd.get("order_by"):
            kw["order_by"] = list(nd["order_by"])
        if nd.get("reverse"):
            kw["reverse"] = list(nd["reverse"])
        return src.extend(ops, **kw)
    if op == "project":
        src = built[nd["src"]]
        ops = {k: realise_expr(e, mode) for k, e in nd["ops"]}
        return src.project(ops, group_by=list(nd.get("group_by") or []))
    if op == "select_rows":
        return built[nd["src"]].select_rows(realise_expr(nd["expr"], mode))
    if op == "select_columns":
        return built[nd["src"]].select_columns(list(nd["cols"]))
    if op == "drop_columns":
        return built[nd["src"]].drop_columns(list(nd["cols"]))
    if op == "rename_columns":
        return built[nd["src"]].rename_columns({k: v for k, v in nd["mapping"]})
    if op == "map_columns":
        return built[nd["src"]].map_columns({k: v for k, v in nd["mapping"]})
    if op == "order_rows":
        kw = {}
        if nd.get("reverse"):
            kw["reverse"] = list(nd["reverse"])
        if nd.get("limit") is not None:
            kw["limit"] = nd["limit"]
        return built[nd["src"]].order_rows(list(nd["cols"]), **kw)
    if op == "natural_join":
        on = nd["on"]
        if all(a == b for a, b in on):
            on_arg = [a for a, b in on]
        else:
            on_arg = [(a, b) for a, b in on]
        kw = {}
        if nd.get("check") == "by":
            kw["check_all_common_keys_in_by"] = True  # the deprecated spelling of the same request
        elif nd.get("check"):
            kw["check_all_common_keys_in_equi_spec"] = True
        return built[nd["a"]].natural_join(b=built[nd["b"]], on=on_arg, jointype=nd["jointype"], **kw)
    if op == "concat_rows":
        return built[nd["a"]].concat_rows(
            b=built[nd["b"]],
            id_column=nd.get("id_column"),
            a_name=nd.get("a_name", "a"),
            b_name=nd.get("b_name", "b"),
        )
    if op == "convert_records":
        return built[nd["src"]].convert_records(build_record_map(nd["record_map"]))
    raise ValueError(f"unknown node op {op!r}")


def node_sources(nd) -> List[int]:
    if nd["op"] == "table":
        return []
    if nd["op"] in ("natural_join", "concat_rows"):
        return [nd["a"], nd["b"]]
    return [nd["src"]]


def reachable(case, root=None) -> List[int]:
    root = case["root"] if root is None else root
    seen = set()
    stack = [root]
    while stack:
        i = stack.pop()
        if i in seen:
            continue
        seen.add(i)
        stack.extend(node_sources(case["nodes"][i]))
    return sorted(seen)


def build(case, root=None, mode=None, table_cols=None):
    """Build the ViewRepresentation for `root` (default the case's root)."""
    root = case["root"] if root is None else root
    mode = mode or case.get("expr_mode", "text")
    built: Dict[int, Any] = {}
    for i in reachable(case, root):
        built[i] = build_node(case["nodes"][i], built, case, mode, table_cols)
    return built[root]


def used_tables(case, root=None) -> List[str]:
    return sorted({case["nodes"][i]["name"] for i in reachable(case, root) if case["nodes"][i]["op"] == "table"})


# ----------------------------------------------------------------------------------------------
# data frames

PANDAS_DTYPE = {"int": "int64", "float": "float64", "str": "str", "bool": "bool"}


def pandas_frame(tbl, cols: Optional[List[str]] = None):
    import numpy
    import pandas

    data = {}
    for i, ent in enumerate(tbl["cols"]):
        name, typ = ent[0], ent[1]
        if cols is not None and name not in cols:
            continue
        vals = [r[i] for r in tbl["rows"]]
        if typ == "float":
            data[name] = pandas.Series([numpy.nan if v is None else float(v) for v in vals], dtype="float64")
        elif typ == "int":
            if any(v is None for v in vals):
                data[name] = pandas.Series([numpy.nan if v is None else float(v) for v in vals], dtype="float64")
            else:
                data[name] = pandas.Series(vals, dtype="int64")
        elif typ == "bool":
            if any(v is None for v in vals):
                data[name] = pandas.Series(vals, dtype="object")
            else:
                data[name] = pandas.Series(vals, dtype="bool")
        else:
            data[name] = pandas.Series(vals, dtype="str")
    return pandas.DataFrame(data)


def pandas_tables(case, names=None) -> Dict[str, Any]:
    names = names if names is not None else list(case["tables"].keys())
    return {n: pandas_frame(case["tables"][n]) for n in names}


def polars_frame(tbl, cols: Optional[List[str]] = None):
    import polars as pl

    tmap = {"int": pl.Int64, "float": pl.Float64, "str": pl.String, "bool": pl.Boolean}
    data = {}
    schema = {}
    for i, ent in enumerate(tbl["cols"]):
        name, typ = ent[0], ent[1]
        if cols is not None and name not in cols:
            continue
        vals = [r[i] for r in tbl["rows"]]
        if typ == "float":
            vals = [None if v is None else float(v) for v in vals]
        data[name] = vals
        schema[name] = tmap[typ]
    return pl.DataFrame(data, schema=schema)


def polars_tables(case, names=None) -> Dict[str, Any]:
    names = names if names is not None else list(case["tables"].keys())
    return {n: polars_frame(case["tables"][n]) for n in names}


def clone(case):
    return copy.deepcopy(case)
