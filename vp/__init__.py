"""Property-based verification machinery for WinVector/data_algebra (see /verif/DESIGN.md)."""
