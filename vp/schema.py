"""Schema tracking for program specs: per column type / nullability / zero-null tolerance, unique keys,
possible emptiness. Used by the generator (to build only well-typed, deterministic-as-multiset programs)
and by checks (to know which columns are compared zero/null tolerantly).

Column info: {"type": "int"|"float"|"str"|"bool", "null": bool, "zn": bool}
  null: the column may contain nulls on some engine/input
  zn:   "zero/null tolerant": the value may legitimately be 0 on one engine and NULL on another
        (sum/count over a group with no non-null values - the documented destination convention)
keys: list of frozensets of column names; each is a non-null unique key of the node's rows
      (frozenset() means "at most one row").
"""

from __future__ import annotations

from collections import OrderedDict
from typing import Dict, List, Optional, Tuple

from . import spec

NUM = ("int", "float")

# name pools: a name always has the same type wherever it appears, so joins/concats of
# independently generated branches are type-consistent by construction
POOLS = {
    "int": ["a", "b", "c", "k", "id", "n"],
    "float": ["x", "y", "z", "w", "h"],
    "str": ["s", "t", "g", "u"],
    "bool": ["p", "q", "r"],
}
NAME_TYPE = {n: t for t, ns in POOLS.items() for n in ns}


class Sch:
    def __init__(self, cols=None, keys=None, maybe_empty=True):
        self.cols: "OrderedDict[str, dict]" = OrderedDict(cols or [])
        self.keys: List[frozenset] = list(keys or [])
        self.maybe_empty = maybe_empty

    def copy(self):
        return Sch([(k, dict(v)) for k, v in self.cols.items()], list(self.keys), self.maybe_empty)

    def names(self):
        return list(self.cols.keys())

    def of_type(self, *types, null=None, zn=False):
        out = []
        for n, c in self.cols.items():
            if c["type"] not in types:
                continue
            if null is not None and c["null"] != null:
                continue
            if c["zn"] and not zn:
                continue
            out.append(n)
        return out

    def has_key_within(self, cols) -> bool:
        cs = set(cols)
        return any(k <= cs for k in self.keys)

    def total_order(self, cols) -> bool:
        """Ordering by `cols` is total up to identical rows, and all order columns are non-null."""
        if any(self.cols[c]["null"] or self.cols[c]["zn"] for c in cols):
            return False
        if self.has_key_within(cols):
            return True
        return set(cols) == set(self.cols.keys())


def col(type_, null=False, zn=False):
    return {"type": type_, "null": bool(null), "zn": bool(zn)}


# ----------------------------------------------------------------------------------------------
# expression typing


class TypeErr(Exception):
    pass


ARITH = {"+", "-", "*"}
CMP = {"==", "!=", "<", "<=", ">", ">="}

# unary numeric methods: result type rule, domain restriction handled by the generator
UNARY_NUM = {
    "abs": "same",
    "neg": "same",
    "sign": "float",
    "floor": "float",
    "ceil": "float",
    "sqrt": "float",
    "exp": "float",
    "sin": "float",
    "cos": "float",
    "arctan": "float",
    "tanh": "float",
}

AGG_PROJECT = {
    # name: (arg types, result type rule, null rule)
    "sum": (NUM, "same", "zn"),
    "mean": (NUM, "float", "null"),
    "min": (NUM, "same", "null"),
    "max": (NUM, "same", "null"),
    "count": (NUM + ("str",), "int", "zn_empty"),
    "size": (NUM + ("str", "bool"), "int", "zn_empty"),
    "_size": ((), "int", "zn_empty"),
    "nunique": (NUM + ("str",), "int", "zn_empty"),
    "median": (NUM, "float", "null"),
    "std": (NUM, "float", "null1"),
    "var": (NUM, "float", "null1"),
    "any": (("bool",), "bool", "no"),
    "all": (("bool",), "bool", "no"),
}
AGG_WINDOW = {
    "sum": (NUM, "same", "zn"),
    "mean": (NUM, "float", "null"),
    "min": (NUM, "same", "null"),
    "max": (NUM, "same", "null"),
    "count": (NUM + ("str",), "int", "no"),
    "size": (NUM + ("str", "bool"), "int", "no"),
    "_size": ((), "int", "no"),
}
ORDERED_WINDOW = {
    "cumsum": (NUM, "same"),
    "cummax": (NUM, "same"),
    "cummin": (NUM, "same"),
    "_row_number": ((), "int"),
    "shift": (NUM + ("str",), "same"),
}


def expr_type(e, sch: Sch) -> Tuple[str, bool]:
    """(type, nullable) of a row-wise expression; raises TypeErr if outside the generated fragment."""
    k = e[0]
    if k == "col":
        c = sch.cols.get(e[1])
        if c is None:
            raise TypeErr(f"unknown column {e[1]}")
        if c["zn"]:
            raise TypeErr("zn column used")
        return c["type"], c["null"]
    if k == "lit":
        v = e[1]
        if isinstance(v, bool):
            return "bool", False
        if isinstance(v, int):
            return "int", False
        if isinstance(v, float):
            return "float", False
        if isinstance(v, str):
            return "str", False
        raise TypeErr("literal")
    if k != "call":
        raise TypeErr(k)
    op, args = e[1], e[2]
    ts = [expr_type(a, sch) for a in args if a[0] in ("col", "lit", "call")]
    if op in ARITH:
        (ta, na), (tb, nb) = ts
        if ta not in NUM or tb not in NUM:
            raise TypeErr(op)
        return ("int" if ta == tb == "int" else "float"), (na or nb)
    if op in ("/", "**", "%/%"):
        (ta, na), (tb, nb) = ts
        return "float", (na or nb)
    if op in CMP:
        return "bool", False
    if op in ("and", "or", "not"):
        return "bool", False
    if op in UNARY_NUM:
        (ta, na) = ts[0]
        r = UNARY_NUM[op]
        return (ta if r == "same" else r), na
    if op in ("is_null", "is_bad", "is_in"):
        return "bool", False
    if op in ("coalesce", "%?%"):
        (ta, na), (tb, nb) = ts
        t = ta if ta == tb else "float"
        return t, (na and nb)
    if op in ("if_else", "where"):
        (_, _), (tb, nb), (tc, nc) = ts
        t = tb if tb == tc else "float"
        return t, (nb or nc)
    if op in ("maximum", "minimum", "fmax", "fmin"):
        (ta, na), (tb, nb) = ts
        return ("int" if ta == tb == "int" else "float"), (na or nb)
    if op in ("%+%", "concat"):
        return "str", False
    if op == "mapv":
        return ts[-1][0] if ts else "float", False
    raise TypeErr(op)


def agg_result(table: dict, fn: str, arg, sch: Sch, *, ungrouped_maybe_empty=False, windowed=False):
    """Result column info for an aggregate `fn(arg)`; arg is an expr (col or lit) or None."""
    argt, res, nullrule = table[fn][:3] if len(table[fn]) >= 3 else (table[fn][0], table[fn][1], "no")
    if arg is None:
        at, an = None, False
    elif arg[0] == "lit":
        at, an = expr_type(arg, sch)
    else:
        at, an = expr_type(arg, sch)
    t = at if res == "same" else res
    if t is None:
        t = "int"
    null = False
    zn = False
    empty = ungrouped_maybe_empty
    if nullrule == "zn":
        zn = an or empty
    elif nullrule == "zn_empty":
        zn = empty  # an ungrouped aggregate over no rows: 0 on Pandas, NULL from SUM(...) in SQL
    elif nullrule == "null":
        null = an or empty
    elif nullrule == "null1":
        null = True  # fewer than two non-null values give NULL
    return col(t, null, zn)


# ----------------------------------------------------------------------------------------------
# node output schemas


def declared_table_schema(tbl) -> Sch:
    """Schema from declarations only (nullability declared per column, not read from the rows), so that
    the same program is valid for every data set the generator could have drawn."""
    cols = []
    for ent in tbl["cols"]:
        name, typ = ent[0], ent[1]
        cols.append((name, col(typ, bool(ent[2]) if len(ent) > 2 else False, bool(ent[3]) if len(ent) > 3 else False)))
    keys = [frozenset(k) for k in tbl.get("keys", [])]
    return Sch(cols, keys, True)


def out_schema(nd, schemas: Dict[int, Sch], case) -> Sch:
    op = nd["op"]
    if op == "table":
        return declared_table_schema(case["tables"][nd["name"]])
    if op == "extend":
        s = schemas[nd["src"]]
        o = s.copy()
        windowed = bool(nd.get("partition_by")) or bool(nd.get("order_by")) or _is_window_ops(nd["ops"])
        for name, e in nd["ops"]:
            if windowed and e[0] == "call" and (e[1] in AGG_WINDOW or e[1] in ORDERED_WINDOW):
                fn = e[1]
                arg = e[2][0] if e[2] else None
                if fn in ORDERED_WINDOW and nd.get("order_by"):
                    at = expr_type(arg, s)[0] if arg is not None else None
                    t = ORDERED_WINDOW[fn][1]
                    t = at if t == "same" else t
                    an = expr_type(arg, s)[1] if arg is not None else False
                    ci = col(t, an or fn == "shift")
                else:
                    ci = agg_result(AGG_WINDOW, fn, arg, s, windowed=True)
            else:
                t, n = expr_type(e, s)
                ci = col(t, n)
            o.cols[name] = ci
        produced = {n for n, _ in nd["ops"]}
        o.keys = [k for k in s.keys if not (k & produced)]
        return o
    if op == "project":
        s = schemas[nd["src"]]
        gb = list(nd.get("group_by") or [])
        cols = [(g, dict(s.cols[g])) for g in gb]
        o = Sch(cols, [], s.maybe_empty)
        ungrouped = len(gb) == 0
        for name, e in nd["ops"]:
            fn = e[1]
            arg = e[2][0] if e[2] else None
            o.cols[name] = agg_result(AGG_PROJECT, fn, arg, s, ungrouped_maybe_empty=ungrouped and s.maybe_empty)
        if ungrouped:
            o.keys = [frozenset()]
            o.maybe_empty = False
        elif not any(s.cols[g]["null"] for g in gb):
            o.keys = [frozenset(gb)]
        return o
    if op == "select_rows":
        o = schemas[nd["src"]].copy()
        o.maybe_empty = True
        return o
    if op == "select_columns":
        s = schemas[nd["src"]]
        o = Sch([(c, dict(s.cols[c])) for c in nd["cols"]], [k for k in s.keys if k <= set(nd["cols"])], s.maybe_empty)
        return o
    if op == "drop_columns":
        s = schemas[nd["src"]]
        keep = [c for c in s.names() if c not in nd["cols"]]
        return Sch([(c, dict(s.cols[c])) for c in keep], [k for k in s.keys if k <= set(keep)], s.maybe_empty)
    if op == "rename_columns":
        s = schemas[nd["src"]]
        rev = {old: new for new, old in nd["mapping"]}
        o = Sch([(rev.get(c, c), dict(v)) for c, v in s.cols.items()], [frozenset(rev.get(c, c) for c in k) for k in s.keys], s.maybe_empty)
        return o
    if op == "map_columns":
        s = schemas[nd["src"]]
        mp = {old: new for old, new in nd["mapping"]}
        dele = {old for old, new in nd["mapping"] if new is None}
        cols = [(mp.get(c, c), dict(v)) for c, v in s.cols.items() if c not in dele]
        keys = [frozenset(mp.get(c, c) for c in k) for k in s.keys if not (k & dele)]
        return Sch(cols, keys, s.maybe_empty)
    if op == "order_rows":
        o = schemas[nd["src"]].copy()
        if nd.get("limit") == 0:
            o.maybe_empty = True  # limit 0 empties even the one row of an ungrouped project
        return o
    if op == "natural_join":
        a, b = schemas[nd["a"]], schemas[nd["b"]]
        jt = nd["jointype"].upper()
        on_a = [x for x, _ in nd["on"]]
        on_b = [y for _, y in nd["on"]]
        cols = []
        left_null = jt in ("RIGHT", "FULL")
        right_null = jt in ("LEFT", "FULL")
        for c, v in a.cols.items():
            ci = dict(v)
            if c in b.cols:
                # COALESCE(a.c, b.c): null only if both sides can be null or missing
                ci["null"] = (v["null"] or left_null) and (b.cols[c]["null"] or right_null)
                ci["zn"] = v["zn"] or b.cols[c]["zn"]
            else:
                ci["null"] = v["null"] or left_null
            cols.append((c, ci))
        for c, v in b.cols.items():
            if c in a.cols:
                continue
            ci = dict(v)
            ci["null"] = v["null"] or right_null
            cols.append((c, ci))
        keys = []
        if jt in ("INNER", "LEFT") and b.has_key_within(on_b) and on_b:
            keys = list(a.keys)
        if jt in ("INNER", "RIGHT") and a.has_key_within(on_a) and on_a:
            for k in b.keys:
                # right key columns survive only if not shadowed by a left column of the same name
                if not any((c in a.cols) and not (c in on_b and on_a[on_b.index(c)] == c) for c in k):
                    keys.append(k)
        if jt == "INNER" and not keys:
            pass
        o = Sch(cols, [], True)
        o.keys = [k for k in keys if all(c in o.cols and not o.cols[c]["null"] for c in k)]
        return o
    if op == "concat_rows":
        a, b = schemas[nd["a"]], schemas[nd["b"]]
        cols = []
        for c, v in a.cols.items():
            w = b.cols[c]
            cols.append((c, col(v["type"] if v["type"] == w["type"] else "float", v["null"] or w["null"], v["zn"] or w["zn"])))
        keys = []
        if nd.get("id_column") is not None:
            cols.append((nd["id_column"], col("str", False)))
            for k in a.keys:
                if k in b.keys:
                    keys.append(frozenset(set(k) | {nd["id_column"]}))
        return Sch(cols, keys, a.maybe_empty and b.maybe_empty)
    if op == "convert_records":
        s = schemas[nd["src"]]
        return convert_records_schema(nd["record_map"], s)
    raise ValueError(op)


def _is_window_ops(ops) -> bool:
    for _, e in ops:
        if e[0] == "call" and (e[1] in ORDERED_WINDOW or e[1] in ("sum", "mean", "min", "max", "count", "size", "_size")):
            return True
    return False


def convert_records_schema(rm, s: Sch) -> Sch:
    """Output schema of a record map applied to s (value columns homogeneous by construction)."""
    cols = []
    bi, bo = rm.get("blocks_in"), rm.get("blocks_out")
    rk = list((bi or bo)["record_keys"])
    # intermediate row-record form
    if bi is not None:
        ct = bi["control_table"]
        ckeys = bi["control_table_keys"]
        vcols = [c for c in ct["cols"] if c not in ckeys]
        row_cols = OrderedDict((k, dict(s.cols[k])) for k in rk)
        for r in ct["rows"]:
            for c in vcols:
                cell = r[ct["cols"].index(c)]
                src = s.cols[c]
                row_cols[cell] = col(src["type"], True)
    else:
        row_cols = OrderedDict((c, dict(v)) for c, v in s.cols.items())
    if bo is not None:
        ct = bo["control_table"]
        ckeys = bo["control_table_keys"]
        vcols = [c for c in ct["cols"] if c not in ckeys]
        out = OrderedDict((k, dict(row_cols[k])) for k in rk)
        for c in ckeys:
            out[c] = col("str", False)
        for c in vcols:
            cells = [r[ct["cols"].index(c)] for r in ct["rows"]]
            ts = {row_cols[x]["type"] for x in cells}
            out[c] = col(ts.pop() if len(ts) == 1 else "float", True)
        row_cols = out
    return Sch(list(row_cols.items()), [], s.maybe_empty)


def infer(case) -> Dict[int, Sch]:
    schemas: Dict[int, Sch] = {}
    for i, nd in enumerate(case["nodes"]):
        schemas[i] = out_schema(nd, schemas, case)
    return schemas
