"""C14 — generated SQL carries every literal and identifier verbatim.

Cells = position x dialect. A *position* is one place where user-supplied text enters the SQL text (a string
literal, a column / table name, a concat_rows label, a record-map control-table entry ...), optionally with
``SQLFormatOptions(annotate=True)`` so that the text also reaches an annotation comment. Every cell gets its
own small Hypothesis campaign over hostile strings; failures are collected per cell.

Oracles
* A (real execution; dialects ``sqlite`` and ``pg`` = PostgreSQLModel text on the SQLite surrogate): load the
  scenario's tiny tables with a raw sqlite3 connection, run the generated SQL, and require exactly the result
  columns and rows that the operation means (literal back verbatim, names back as result column names, table
  found, every other cell unchanged).
* B (all dialects; tokenisers in vp/lexers.py): the SQL must tokenise without error by the dialect's lexical
  rules and its token stream must equal, token by token, the stream of the SQL generated for a harmless
  placeholder — same kinds, same words/punctuation, same decoded strings/identifiers — except that tokens
  which decode to the placeholder must decode to the input string.
* Spark (thorough tier, shard 0 only): the SparkSQL text is executed on a local Spark session; its verdict is
  also compared with the Spark tokeniser's verdict.
"""

from __future__ import annotations

import re
import shutil
import sqlite3
import tempfile
import warnings
from typing import Any, Dict, List, Optional, Tuple

from hypothesis import strategies as st

from .. import lexers
from ..common import Failure, HarnessError

PID = "C14"
SHARDABLE = True

DIALECTS = ["sqlite", "pg", "bigquery", "spark", "mysql"]
IDQ = {"sqlite": '"', "pg": '"', "bigquery": "`", "spark": "`", "mysql": "`"}
EXEC_DIALECTS = ("sqlite", "pg")

# Fixed names / literals of the scenarios use the letters q and w, which the string alphabet never contains
# (SQLite compares identifiers case-insensitively, so Q and W are left out as well).
PLACEHOLDER = "zplaceholderz"

QUICK_PER_CELL = 60
THOROUGH_PER_CELL = 16 * 600  # ~4 ms per evaluation (black-formatting inside to_sql) x 190 cells: 16*2000 would need ~27 min per shard
SPARK_ENGINE_CASES = 300

_MODELS: Dict[str, Any] = {}


def _model(dialect: str):
    if dialect not in _MODELS:
        import data_algebra.BigQuery
        import data_algebra.MySQL
        import data_algebra.PostgreSQL
        import data_algebra.SparkSQL
        import data_algebra.SQLite

        _MODELS.update(
            {
                "sqlite": data_algebra.SQLite.SQLiteModel(),
                "pg": data_algebra.PostgreSQL.PostgreSQLModel(),
                "bigquery": data_algebra.BigQuery.BigQueryModel(),
                "spark": data_algebra.SparkSQL.SparkSQLModel(),
                "mysql": data_algebra.MySQL.MySQLModel(),
            }
        )
    return _MODELS[dialect]


# ---- character classes ------------------------------------------------------------------------------

_CLASS = {
    "'": "single_quote", '"': "double_quote", "`": "backtick", "\\": "backslash", "%": "percent",
    "_": "underscore", ";": "semicolon", "-": "dash", "/": "slash_star", "*": "slash_star", "\n": "newline",
    "\r": "cr", "\t": "tab", " ": "space", "$": "dollar", ":": "colon", "?": "question", "{": "brace",
    "}": "brace", "#": "hash", "(": "paren", ")": "paren",
}
CLASS_ORDER = [
    "backslash", "double_quote", "single_quote", "backtick", "newline", "cr", "tab", "dash", "slash_star", "hash",
    "percent", "semicolon", "dollar", "colon", "question", "brace", "paren", "underscore", "space", "emoji",
    "unicode", "other", "alnum",
]


def char_class(c: str) -> str:
    if c in _CLASS:
        return _CLASS[c]
    o = ord(c)
    if o > 0xFFFF:
        return "emoji"
    if o > 127:
        return "unicode"
    if c.isalnum():
        return "alnum"
    return "other"


def classes_of(s: str) -> List[str]:
    present = {char_class(c) for c in s}
    return [c for c in CLASS_ORDER if c in present]


def _nontrivial(s: str) -> bool:
    return re.search(r"[^A-Za-z0-9_ ]", s) is not None


# ---- scenarios ---------------------------------------------------------------------------------------

# base position -> role of the text: "literal" (any string is legal) or "name" (used as an identifier: a clean
# rejection is accepted when it contains the dialect's identifier quote)
POSITIONS = {
    "extend_lit": "literal",
    "select_cmp": "literal",
    "is_in": "literal",
    "mapv_key": "literal",
    "mapv_value": "literal",
    "mapv_default": "literal",
    "coalesce": "literal",
    "concat_op": "literal",  # string constant as operand of the concat operator (%+% / .concat())
    "if_else_lit": "literal",  # string constant as a branch of if_else
    "colname": "name",
    "colname_new": "name",
    "tablename": "name",
    "concat_a": "literal",
    "concat_b": "literal",
    "concat_id": "name",
    "rm_out_entry": "name",  # control-table cell: emitted both as a string literal and as a column name
    "rm_out_keyval": "literal",
    "rm_out_keycol": "name",
    "rm_in_entry": "name",
    "rm_in_keyval": "literal",
    "rm_in_keycol": "name",
}
# probe-only scenario (never drawn by a campaign; it exists so that recorded finding F80 has a replay): the new column is
# NAMED like the literal's own SQL spelling, extend({"'x'": 'x'}). Judged by execution only.
PROBE_ONLY = {"extend_lit_samename": "name"}
# positions where the text is emitted as a string literal (backslash matters for Spark / MySQL there)
LITERAL_EMITTED = {p for p, k in POSITIONS.items() if k == "literal"} | {"rm_out_entry"}


def site_of(base: str) -> str:
    return "concat_label" if base in ("concat_a", "concat_b") else base


def split_position(position: str) -> Tuple[str, bool]:
    if position.endswith("_annot"):
        return position[: -len("_annot")], True
    return position, False


class Scenario:
    def __init__(self, ops, tables, expect_cols, expect_rows):
        self.ops = ops
        self.tables = tables  # name -> (columns, rows)
        self.expect_cols = expect_cols
        self.expect_rows = expect_rows


def build(base: str, s: str) -> Scenario:
    """The operator pipeline for one position with text `s`, its input tables and the result it means."""
    import pandas
    from data_algebra.cdata import RecordMap, RecordSpecification
    from data_algebra.data_ops import TableDescription
    from data_algebra.expr_rep import DictTerm, ListTerm, Value, col

    uv = [[1, "u"], [2, "v"]]
    if base == "extend_lit":
        td = TableDescription(table_name="qt", column_names=["qk", "qs"])
        return Scenario(
            td.extend({"qc": Value(s)}), {"qt": (["qk", "qs"], uv)}, ["qk", "qs", "qc"], [[1, "u", s], [2, "v", s]]
        )
    if base == "extend_lit_samename":
        td = TableDescription(table_name="qt", column_names=["qk", "qs"])
        nm = "'" + s.replace("'", "''") + "'"
        return Scenario(td.extend({nm: Value(s)}), {"qt": (["qk", "qs"], uv)}, ["qk", "qs", nm], [[1, "u", s], [2, "v", s]])
    if base in ("select_cmp", "is_in", "mapv_key"):
        td = TableDescription(table_name="qt", column_names=["qk", "qs"])
        tables = {"qt": (["qk", "qs"], [[1, s], [2, s + "~"]])}
        if base == "select_cmp":
            return Scenario(td.select_rows(col("qs") == Value(s)), tables, ["qk", "qs"], [[1, s]])
        if base == "is_in":
            ops = td.select_rows(col("qs").is_in(ListTerm([Value(s), Value("ww")])))
            return Scenario(ops, tables, ["qk", "qs"], [[1, s]])
        ops = td.extend({"qc": col("qs").mapv(DictTerm({s: "hit"}), Value("miss"))})
        return Scenario(ops, tables, ["qk", "qs", "qc"], [[1, s, "hit"], [2, s + "~", "miss"]])
    if base in ("mapv_value", "mapv_default"):
        td = TableDescription(table_name="qt", column_names=["qk", "qs"])
        if base == "mapv_value":
            ops = td.extend({"qc": col("qs").mapv(DictTerm({"u": s}), Value("miss"))})
            rows = [[1, "u", s], [2, "v", "miss"]]
        else:
            ops = td.extend({"qc": col("qs").mapv(DictTerm({"u": "hit"}), Value(s))})
            rows = [[1, "u", "hit"], [2, "v", s]]
        return Scenario(ops, {"qt": (["qk", "qs"], uv)}, ["qk", "qs", "qc"], rows)
    if base == "coalesce":
        td = TableDescription(table_name="qt", column_names=["qk", "qn"])
        ops = td.extend({"qc": col("qn").coalesce(Value(s))})
        return Scenario(
            ops, {"qt": (["qk", "qn"], [[1, None], [2, "nn"]])}, ["qk", "qn", "qc"], [[1, None, s], [2, "nn", "nn"]]
        )
    if base == "concat_op":
        td = TableDescription(table_name="qt", column_names=["qk", "qs"])
        ops = td.extend({"qc": col("qs").concat(Value(s))})
        return Scenario(ops, {"qt": (["qk", "qs"], uv)}, ["qk", "qs", "qc"], [[1, "u", "u" + s], [2, "v", "v" + s]])
    if base == "if_else_lit":
        td = TableDescription(table_name="qt", column_names=["qk", "qs"])
        ops = td.extend({"qc": (col("qs") == Value("u")).if_else(Value(s), Value("other"))})
        return Scenario(ops, {"qt": (["qk", "qs"], uv)}, ["qk", "qs", "qc"], [[1, "u", s], [2, "v", "other"]])
    if base == "colname":
        td = TableDescription(table_name="qt", column_names=["qk", s])
        ops = td.extend({"qz": col(s)}).select_columns([s, "qz"]).order_rows([s])
        return Scenario(ops, {"qt": (["qk", s], uv)}, [s, "qz"], [["u", "u"], ["v", "v"]])
    if base == "colname_new":
        td = TableDescription(table_name="qt", column_names=["qk", "qs"])
        return Scenario(
            td.extend({s: col("qs")}), {"qt": (["qk", "qs"], uv)}, ["qk", "qs", s], [[1, "u", "u"], [2, "v", "v"]]
        )
    if base == "tablename":
        td = TableDescription(table_name=s, column_names=["qk", "qs"])
        return Scenario(
            td.extend({"qc": Value("lit")}), {s: (["qk", "qs"], uv)}, ["qk", "qs", "qc"],
            [[1, "u", "lit"], [2, "v", "lit"]],
        )
    if base in ("concat_a", "concat_b", "concat_id"):
        ta = TableDescription(table_name="qt", column_names=["qk", "qs"])
        tb = TableDescription(table_name="qu", column_names=["qk", "qs"])
        idc, an, bn = "qi", "wa", "wb"
        if base == "concat_a":
            an = s
        elif base == "concat_b":
            bn = s
        else:
            idc = s
        ops = ta.concat_rows(tb, id_column=idc, a_name=an, b_name=bn)
        tables = {"qt": (["qk", "qs"], [[1, "u"]]), "qu": (["qk", "qs"], [[2, "v"]])}
        return Scenario(ops, tables, ["qk", "qs", idc], [[1, "u", an], [2, "v", bn]])
    if base.startswith("rm_"):
        entry, keyval, keycol = "qc1", "wa", "qy"
        what = base.split("_")[2]
        if what == "entry":
            entry = s
        elif what == "keyval":
            keyval = s
        else:
            keycol = s
        ct = pandas.DataFrame({keycol: [keyval, "wb"], "qv": [entry, "qc2"]})
        rs = RecordSpecification(ct, record_keys=["qk"], control_table_keys=[keycol])
        rows_cols, rows_rows = ["qk", entry, "qc2"], [[1, "u", "x"], [2, "v", "y"]]
        blk_cols = ["qk", keycol, "qv"]
        blk_rows = [[1, keyval, "u"], [1, "wb", "x"], [2, keyval, "v"], [2, "wb", "y"]]
        if base.startswith("rm_out_"):
            td = TableDescription(table_name="qt", column_names=rows_cols)
            return Scenario(td.convert_records(RecordMap(blocks_out=rs)), {"qt": (rows_cols, rows_rows)}, blk_cols, blk_rows)
        td = TableDescription(table_name="qb", column_names=blk_cols)
        return Scenario(td.convert_records(RecordMap(blocks_in=rs)), {"qb": (blk_cols, blk_rows)}, rows_cols, rows_rows)
    raise ValueError(base)


# ---- oracle A: execution on SQLite ------------------------------------------------------------------


def _qi(name: str) -> str:
    return '"' + name.replace('"', '""') + '"'


def _row_key(r):
    return [(0, "") if v is None else (1, repr(v)) for v in r]


def execute_sqlite(sc: Scenario, sql: str):
    """Returns ("ok", cols, rows) | ("error", message, None)."""
    conn = sqlite3.connect(":memory:")
    try:
        for name, (cols, rows) in sc.tables.items():
            conn.execute(f"CREATE TABLE {_qi(name)} ({', '.join(_qi(c) for c in cols)})")
            conn.executemany(f"INSERT INTO {_qi(name)} VALUES ({', '.join('?' for _ in cols)})", rows)
        try:
            cur = conn.execute(sql)
            cols = [d[0] for d in cur.description]
            rows = [list(r) for r in cur.fetchall()]
        except (sqlite3.Error, sqlite3.Warning) as e:
            return "error", f"{type(e).__name__}: {e}", None
        return "ok", cols, rows
    finally:
        conn.close()


def check_execution(sc: Scenario, sql: str) -> Optional[Tuple[str, str]]:
    """None if the SQL returns exactly what the scenario means, else (kind, message)."""
    status, a, b = execute_sqlite(sc, sql)
    if status == "error":
        return "exec_error", f"SQLite refused the generated SQL: {a}"
    cols, rows = a, b
    if cols != sc.expect_cols:
        return "exec_columns", f"result columns {cols!r}, expected {sc.expect_cols!r}"
    got = sorted(rows, key=_row_key)
    exp = sorted(sc.expect_rows, key=_row_key)
    if got != exp or [[type(v) for v in r] for r in got] != [[type(v) for v in r] for r in exp]:
        return "exec_rows", f"result rows {got!r}, expected {exp!r}"
    return None


# ---- oracle B: tokens --------------------------------------------------------------------------------

_PLACEHOLDER_CACHE: Dict[Tuple[str, str], Tuple[Optional[str], Optional[List[lexers.Tok]], Optional[str]]] = {}


def _to_sql(dialect: str, ops, annotate: bool) -> str:
    from data_algebra.sql_format_options import SQLFormatOptions

    with warnings.catch_warnings():
        warnings.simplefilter("ignore")
        return _model(dialect).to_sql(ops, sql_format_options=SQLFormatOptions(annotate=annotate))


class PlaceholderProblem(Exception):
    """The query for the harmless placeholder string is itself broken (a violation, reported for the cell)."""


def placeholder_tokens(position: str, dialect: str):
    key = (position, dialect)
    if key not in _PLACEHOLDER_CACHE:
        base, annotate = split_position(position)
        sql = None
        try:
            sql = _to_sql(dialect, build(base, PLACEHOLDER).ops, annotate)
            toks = lexers.significant(lexers.tokenize(sql, dialect))
        except Exception as e:  # noqa
            _PLACEHOLDER_CACHE[key] = (sql, None, f"SQL for the harmless string {PLACEHOLDER!r} cannot be produced or tokenised: {e!r}")
        else:
            msg = None
            if not any(t.kind in ("str", "id") and t.value == PLACEHOLDER for t in toks):
                msg = f"the harmless string {PLACEHOLDER!r} does not appear as a literal / identifier token of its own query"
            _PLACEHOLDER_CACHE[key] = (sql, toks, msg)
    sql, toks, msg = _PLACEHOLDER_CACHE[key]
    if msg is not None:
        raise PlaceholderProblem(msg)
    return sql, toks


def check_tokens(position: str, dialect: str, s: str, sql: str) -> Optional[Tuple[str, str]]:
    try:
        toks = lexers.significant(lexers.tokenize(sql, dialect))
    except lexers.LexError as e:
        return "illformed", f"not well-formed by {dialect} lexical rules: {e}"
    try:
        _, ptoks = placeholder_tokens(position, dialect)
    except PlaceholderProblem as e:
        return "placeholder", str(e)
    for i in range(min(len(toks), len(ptoks))):
        t, p = toks[i], ptoks[i]
        if t.kind != p.kind:
            return "skeleton", f"token {i} is {t.kind} {t.text!r}, placeholder query has {p.kind} {p.text!r}"
        if p.kind in ("str", "id") and p.value == PLACEHOLDER:
            if t.value != s:
                what = "string literal" if p.kind == "str" else "quoted identifier"
                return "decode", f"{what} {t.text!r} reads back as {t.value!r}, not as the input {s!r}"
        elif t.value != p.value:
            return "skeleton", f"token {i} is {t.text!r}, placeholder query has {p.text!r}"
    if len(toks) != len(ptoks):
        return "skeleton", f"{len(toks)} tokens, placeholder query has {len(ptoks)}"
    return None


# PostgreSQLModel wraps the rows of the record-map control table in parentheses ("(SELECT ..) UNION ALL
# (SELECT ..)"), which SQLite cannot parse even for harmless strings: those pg cells are judged by the pg
# tokeniser alone.
PG_SURROGATE_CANNOT_RUN = ("rm_out_entry", "rm_out_keyval", "rm_out_keycol")


def exec_available(position: str, dialect: str) -> bool:
    if dialect not in EXEC_DIALECTS:
        return False
    return not (dialect == "pg" and split_position(position)[0] in PG_SURROGATE_CANNOT_RUN)


# ---- the oracle core ---------------------------------------------------------------------------------


def evaluate(position: str, dialect: str, s: str) -> Tuple[Optional[Tuple[str, str]], str, Optional[str]]:
    """Run one (position, dialect, string). Returns (problem | None, outcome tag, sql | None)."""
    base, annotate = split_position(position)
    role = POSITIONS.get(base) or PROBE_ONLY[base]
    try:
        sc = build(base, s)
    except Exception as e:  # noqa
        if role == "name":
            return None, "rejected_at_construction", None
        return ("raised", f"building the pipeline raised {type(e).__name__}: {e}"), "raised", None
    try:
        sql = _to_sql(dialect, sc.ops, annotate)
    except Exception as e:  # noqa
        if role == "name" and IDQ[dialect] in s and isinstance(e, (ValueError, AssertionError)):
            return None, "rejected_identifier_quote", None
        msg = str(e).strip().split("\n")[0][:200]
        return ("raised", f"to_sql raised {type(e).__name__}: {msg}"), "raised", None
    if not isinstance(sql, str):
        return ("raised", f"to_sql returned {type(sql)}"), "raised", None
    problem = check_tokens(position, dialect, s, sql) if base in POSITIONS else None
    if problem is None and exec_available(position, dialect):
        problem = check_execution(sc, sql)
    return problem, "checked", sql


def trigger_class(position: str, dialect: str, s: str) -> str:
    """Character class whose neutralisation (every character of the class replaced by the letter a) makes the
    failure disappear; the first such class in CLASS_ORDER, else 'mixed'."""
    if s == "":
        return "empty"
    for c in classes_of(s):
        if c == "alnum":
            continue
        reduced = "".join("a" if char_class(ch) == c else ch for ch in s)
        problem, _, _ = evaluate(position, dialect, reduced)
        if problem is None:
            return c
    return "mixed"


CLASS_CHARS = {"backslash": "\\", "double_quote": '"', "newline": "\n", "cr": "\r"}


def region_of(base: str, dialect: str, cls: str) -> str:
    """Name of the generator exclusion region (= flag of a known finding) that covers this trigger class in
    this cell, or 'none'. Known findings are matched on this key, so a finding masks exactly the inputs the
    generator leaves out while the finding is open."""
    ch = CLASS_CHARS.get(cls)
    if ch is None:
        return "none"
    for flag, (applies, chars) in EXCLUSIONS.items():
        if ch in chars and applies(base, dialect):
            return flag
    return "none"


def check_case(case) -> Tuple[Optional[Failure], str]:
    position, dialect, s = case["position"], case["dialect"], case["s"]
    problem, outcome, sql = evaluate(position, dialect, s)
    if problem is None:
        return None, outcome
    kind, msg = problem
    base, _ = split_position(position)
    cls = trigger_class(position, dialect, s)
    sig = {
        "position": position, "site": site_of(base), "dialect": dialect, "class": cls, "kind": kind,
        "region": region_of(base, dialect, cls),
    }
    f = Failure(
        f"{position}/{dialect}: text {s!r} ({cls}): {msg}",
        sig,
        {"sql": sql, "string": s, "placeholder_sql": _PLACEHOLDER_CACHE.get((position, dialect), (None,))[0]},
    )
    return f, outcome


# ---- Spark engine (thorough tier) ----------------------------------------------------------------------

_SPARK: Dict[str, Any] = {}


def spark_session():
    """A local Spark session with all scratch files in a private temp directory; None if it cannot start."""
    if "session" in _SPARK:
        return _SPARK["session"]
    _SPARK["session"] = None
    tmp = tempfile.mkdtemp(prefix="c14spark_")
    _SPARK["tmp"] = tmp
    try:
        from pyspark.sql import SparkSession

        with warnings.catch_warnings():
            warnings.simplefilter("ignore")
            sp = (
                SparkSession.builder.master("local[1]")
                .appName("vp-c14")
                .config("spark.ui.enabled", "false")
                .config("spark.ui.showConsoleProgress", "false")
                .config("spark.sql.shuffle.partitions", "1")
                .config("spark.local.dir", tmp)
                .config("spark.sql.warehouse.dir", tmp + "/wh")
                .config("spark.driver.extraJavaOptions", f"-Djava.io.tmpdir={tmp} -Dderby.system.home={tmp}")
                .getOrCreate()
            )
            sp.sparkContext.setLogLevel("OFF")
        _SPARK["session"] = sp
    except BaseException as e:  # noqa
        _SPARK["error"] = repr(e)
        spark_stop()
        _SPARK["session"] = None
    return _SPARK["session"]


def spark_stop():
    sp = _SPARK.get("session")
    if sp is not None:
        try:
            sp.stop()
        except Exception:  # noqa
            pass
    _SPARK.pop("session", None)
    _SPARK.pop("view", None)
    tmp = _SPARK.pop("tmp", None)
    if tmp:
        shutil.rmtree(tmp, ignore_errors=True)


def spark_engine_case(case) -> Tuple[Optional[Failure], Optional[bool]]:
    """Execute one extend_lit / colname_new scenario on Spark. Returns (failure, lexer verdict ok?)."""
    sp = spark_session()
    if sp is None:
        raise HarnessError("Spark session unavailable: " + _SPARK.get("error", "?"))
    position, s = case["position"], case["s"]
    base, annotate = split_position(position)
    sc = build(base, s)
    sql = _to_sql("spark", sc.ops, annotate)
    lex_ok = check_tokens(position, "spark", s, sql) is None
    if sc.tables != {"qt": (["qk", "qs"], [[1, "u"], [2, "v"]])}:
        raise HarnessError("Spark engine scenarios use the fixed table qt(qk, qs) only")
    if not _SPARK.get("view"):
        # built inside the JVM (no Python workers)
        sp.sql("CREATE OR REPLACE TEMP VIEW `qt` AS SELECT * FROM VALUES (1, 'u'), (2, 'v') AS t(`qk`, `qs`)")
        _SPARK["view"] = True
    problem = None
    try:
        df = sp.sql(sql)
        cols = list(df.columns)
        rows = [list(r) for r in df.collect()]
        if cols != sc.expect_cols:
            problem = ("exec_columns", f"Spark result columns {cols!r}, expected {sc.expect_cols!r}")
        elif sorted(rows, key=_row_key) != sorted(sc.expect_rows, key=_row_key):
            problem = ("exec_rows", f"Spark result rows {rows!r}, expected {sc.expect_rows!r}")
    except Exception as e:  # noqa
        problem = ("exec_error", "Spark refused the generated SQL: " + str(e).strip().split("\n")[0][:200])
    if problem is None:
        return None, lex_ok
    cls = "mixed"
    for c in classes_of(s):
        reduced = "".join("a" if char_class(ch) == c else ch for ch in s)
        if c != "alnum" and check_tokens(position, "spark", reduced, _to_sql("spark", build(base, reduced).ops, annotate)) is None:
            cls = c
            break
    sig = {
        "position": position, "site": site_of(base), "dialect": "spark", "class": cls, "kind": problem[0],
        "region": region_of(base, "spark", cls), "engine": "spark",
    }
    return Failure(f"{position}/spark (real engine): text {s!r} ({cls}): {problem[1]}", sig, {"sql": sql, "string": s}), lex_ok


# ---- generation ---------------------------------------------------------------------------------------

TOKENS = [
    "'", '"', "`", "\\", "%", "_", ";", "--", "/*", "*/", "\n", "\r", "\t", " ", "$", ":", "?", "{", "}", "#",
    "a", "b", "Z", "0", "é", "ß", "λ", "中", "😀", "𝒳",
    "''", '""', "\\'", '\\"', "\\\\", "-- ", "\\n", "%s", "%(a)s", "{0}", "$1", ":a", "$$", "')", '")', "\r\n",
]
_tok = st.sampled_from(TOKENS)
_plain = st.lists(_tok, min_size=0, max_size=8).map("".join)
_run = st.tuples(_tok, st.integers(2, 20)).map(lambda t: t[0] * t[1])
STRINGS = st.one_of(_plain, _plain, _run, st.tuples(_plain, _run).map(lambda t: t[0] + t[1])).map(lambda x: x[:20])

# flag of an open finding -> (applies(base position, dialect), characters kept out of that cell)
EXCLUSIONS = {
    "backslash_bigquery": (lambda base, d: d == "bigquery", "\\"),
    "dquote_bigquery": (lambda base, d: d == "bigquery" and base in LITERAL_EMITTED, '"'),
    "linebreak_bigquery": (lambda base, d: d == "bigquery", "\n\r"),
    "backslash_spark": (lambda base, d: d == "spark" and base in LITERAL_EMITTED, "\\"),
    "backslash_mysql": (lambda base, d: d == "mysql" and base in LITERAL_EMITTED, "\\"),
    "concat_label_reparse": (lambda base, d: site_of(base) == "concat_label", '"\\\n\r'),
}


def excluded_chars(closed, position: str, dialect: str) -> str:
    base, _ = split_position(position)
    out = ""
    for flag, (applies, chars) in EXCLUSIONS.items():
        if flag in closed and applies(base, dialect):
            out += chars
    return out


def all_positions() -> List[str]:
    return list(POSITIONS) + [p + "_annot" for p in POSITIONS]


# ---- per-cell campaign --------------------------------------------------------------------------------


def minimise(ctx, case, failure):
    """Deterministic character-level reduction of a failing string (still failing, still not a known finding)."""
    best_case, best_f = case, failure

    def still_fails(s):
        c = dict(best_case, s=s)
        f, _ = check_case(c)
        if f is None or ctx.findings.match(f.sig) is not None:
            return None
        return c, f

    changed = True
    while changed:
        changed = False
        s = best_case["s"]
        n = len(s)
        chunk = max(1, n // 2)
        while chunk >= 1 and not changed:
            for i in range(0, n, chunk):
                cand = s[:i] + s[i + chunk :]
                if POSITIONS[split_position(case["position"])[0]] == "name" and cand == "":
                    continue
                r = still_fails(cand)
                if r is not None:
                    best_case, best_f = r
                    changed = True
                    break
            chunk //= 2
    return best_case, best_f


def cell_campaign(ctx, cell: str, strategy, oracle, max_examples: int, fixed_cases=()) -> bool:
    """Hypothesis generation for one cell; every failure is collected (none stops the cell), failures matching
    an open known finding are counted and skipped, the smallest remaining one is minimised and reported once."""
    import hypothesis
    from hypothesis import HealthCheck, Phase, given, settings

    from ..common import canon

    fails = []

    def run_one(case):
        f = oracle(case)
        if f is None:
            return
        ctx.ev.count("failures_seen")
        e = ctx.findings.match(f.sig)
        if e is not None:
            ctx.ev.count(f"known_finding_hit:{e['id']}")
            ctx.known(e)
            return
        fails.append((case, f))

    for case in fixed_cases:
        run_one(case)
    st_settings = settings(
        max_examples=max_examples, deadline=None, database=None, derandomize=False, report_multiple_bugs=False,
        suppress_health_check=list(HealthCheck), phases=[Phase.generate], print_blob=False,
    )
    seed_val = (ctx.seed * 7919 + sum(ord(c) for c in cell)) % (2**31)
    hypothesis.seed(seed_val)(st_settings(given(strategy)(run_one)))()
    if not fails:
        return True
    classes = sorted({f.sig["class"] for _, f in fails})
    case, f = min(fails, key=lambda t: (len(t[0]["s"]), canon(t[0])))
    case, f = minimise(ctx, case, f)
    if isinstance(f.detail, dict):
        f.detail["classes_failing_in_cell"] = classes
    ctx.violation(f, case, check=cell)
    return False


# ---- module contract ----------------------------------------------------------------------------------


def replay(check, case):
    if check == "sparkengine":
        try:
            f, _ = spark_engine_case(case)
        finally:
            spark_stop()
        return f
    f, _ = check_case(case)
    return f


def self_check():
    problems = lexers.self_test()
    if problems:
        raise HarnessError("lexer self-test failed:\n" + "\n".join(problems))


HARMLESS = ("ab", PLACEHOLDER)


def run(ctx):
    ev = ctx.ev
    ev.rule = (
        "cells = 38 positions (19 places where user text enters SQL: literal in extend / select_rows comparison / "
        "is_in / mapv key,value,default / coalesce; column name (existing, new), table name; concat_rows a_name, "
        "b_name, id_column; record-map control entry, key value, key column for blocks_out and blocks_in; each "
        "with and without annotate=True) x 5 dialects; per cell Hypothesis strings (<= 20 chars) joined from "
        "hostile tokens (quotes, backslash, %, _, ;, --, /* */, #, line breaks, tab, $, :, ?, {}, unicode, astral, "
        "doubled quotes, long runs, empty). non-trivial = string with a character outside [A-Za-z0-9_ ]; "
        "distinct = SHA-1 of (position, dialect, string)."
    )
    ev.assumptions = [
        "strings contain no \\x00 and no lone surrogates (SQLite TEXT / UTF-8 transport cannot carry them)",
        "names (column, table, id_column, record-map entries and key columns) are non-empty: a zero-length quoted identifier is illegal in PostgreSQL/BigQuery whatever the quoting",
        "names never collide with the scenario's fixed names (alphabet has no q/w, fixed names use only q/w letters); SQLite's case-insensitive identifier matching is therefore not exercised",
        "a ValueError/AssertionError from to_sql for a name containing the dialect's identifier quote is accepted (documented precondition); a rejection of a name while constructing the pipeline is accepted and counted",
        "PostgreSQL execution is the PostgreSQLModel text run on SQLite (labelled surrogate, same '' doubling rules as standard_conforming_strings=on); PostgreSQL lexical rules are checked separately by the pg tokeniser",
        "BigQuery, MySQL (default sql_mode, no ANSI_QUOTES / NO_BACKSLASH_ESCAPES) and Spark (escapedStringLiterals=false) are judged by tokenisers written from the vendors' lexical rules (vp/lexers.py), not by engines; Spark additionally on a local Spark 4.x engine in the thorough tier",
        "semantic identifier restrictions of engines (BigQuery column-name character set, MySQL trailing-space rule, length limits) are not lexical and are not checked",
        "comment contents are ignored: only that a comment ends where the placeholder query's comment ends (token streams equal) is demanded",
        "MySQL /*! ... */ executable comments are treated as comments",
    ]
    ev.trusted_base = ["python sqlite3 (SQLite engine)", "vp/lexers.py tokenisers (self-tested against hand-written samples; Spark samples confirmed on Spark 4.2)"]
    self_check()
    ctx.probe_findings(replay)

    positions = all_positions()
    ev.extra["cells"] = len(positions) * len(DIALECTS)
    ev.extra["pg_cells_without_execution"] = sorted(p for p in positions if not exec_available(p, "pg"))
    failed_cells = []
    for position in positions:
        for dialect in DIALECTS:
            cell = f"{position}-{dialect}"
            excl = excluded_chars(ctx.closed, position, dialect)
            base, _ = split_position(position)
            role = POSITIONS[base]

            def make_case(s, position=position, dialect=dialect, excl=excl, role=role):
                if excl and any(c in excl for c in s):
                    ev.count("excluded_by_construction")
                    s = "".join(c for c in s if c not in excl)
                if role == "name" and s == "":
                    s = "a"
                return {"position": position, "dialect": dialect, "s": s}

            def oracle(case, role=role):
                f, outcome = check_case(case)
                s = case["s"]
                feats = ["pos:" + split_position(case["position"])[0], "dialect:" + case["dialect"], "outcome:" + outcome]
                feats += ["class:" + c for c in classes_of(s) if c != "alnum"]
                if s == "":
                    feats.append("class:empty")
                if len(s) >= 15:
                    feats.append("long")
                ev.note(case, _nontrivial(s) and outcome == "checked", feats)
                if outcome != "checked":
                    ev.count(outcome)
                return f

            fixed = [{"position": position, "dialect": dialect, "s": h} for h in HARMLESS] if ctx.shard == 0 else []
            ok = cell_campaign(ctx, cell, STRINGS.map(make_case), oracle, ctx.n(QUICK_PER_CELL, THOROUGH_PER_CELL), fixed)
            if not ok:
                failed_cells.append(cell)
    ev.extra["failed_cells"] = failed_cells

    if ctx.tier == "thorough" and ctx.shard == 0:
        run_spark_engine(ctx)


def run_spark_engine(ctx):
    ev = ctx.ev
    if spark_session() is None:
        ev.count("spark_unavailable")
        ev.inconclusive.append("Spark engine could not be started: " + _SPARK.get("error", "?"))
        spark_stop()
        return
    try:
        for position in ("extend_lit", "colname_new", "extend_lit_annot"):
            excl = excluded_chars(ctx.closed, position, "spark")
            role = POSITIONS[split_position(position)[0]]

            def make_case(s, position=position, excl=excl, role=role):
                if excl and any(c in excl for c in s):
                    ev.count("excluded_by_construction")
                    s = "".join(c for c in s if c not in excl)
                if role == "name" and (s == "" or "`" in s):
                    s = s.replace("`", "") or "a"
                return {"position": position, "dialect": "spark", "s": s}

            def oracle(case):
                f, lex_ok = spark_engine_case(case)
                ev.note(case, _nontrivial(case["s"]), ["spark_engine", "pos:" + case["position"]])
                ev.count("spark_engine_cases")
                if lex_ok != (f is None):
                    ev.count("spark_lexer_disagrees")
                    if len(ev.inconclusive) < 5:
                        ev.inconclusive.append(
                            f"Spark tokeniser says {'ok' if lex_ok else 'bad'} but engine says {'ok' if f is None else 'bad'} for {case!r}"
                        )
                return f

            spark_campaign(ctx, STRINGS.map(make_case), oracle, SPARK_ENGINE_CASES)
    finally:
        spark_stop()


def spark_campaign(ctx, strategy, oracle, max_examples: int):
    import hypothesis
    from hypothesis import HealthCheck, Phase, given, settings

    from ..common import canon

    fails = []

    def run_one(case):
        f = oracle(case)
        if f is None:
            return
        e = ctx.findings.match(f.sig)
        if e is not None:
            ctx.ev.count(f"known_finding_hit:{e['id']}")
            ctx.known(e)
            return
        fails.append((case, f))

    st_settings = settings(
        max_examples=max_examples, deadline=None, database=None, derandomize=False, report_multiple_bugs=False,
        suppress_health_check=list(HealthCheck), phases=[Phase.generate], print_blob=False,
    )
    hypothesis.seed((ctx.seed * 7919 + 77) % (2**31))(st_settings(given(strategy)(run_one)))()
    if fails:
        case, f = min(fails, key=lambda t: (len(t[0]["s"]), canon(t[0])))
        ctx.violation(f, case, check="sparkengine")
