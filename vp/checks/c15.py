"""C15 — results do not depend on how tables and columns are named (metamorphic).

A generated program is evaluated as is, and again after an injective renaming of all its table and column names
(input columns, created columns, record-map columns) into a pool dominated by names the executors and the SQL
generator use internally (scratch columns, join suffixes, CTE/view names, join aliases), SQL keywords and names
with spaces. On every backend result(rename(case)) must equal rename(result(case)); a failure that appears only
after renaming is a violation.
"""

from __future__ import annotations

import keyword
import os
import re
import warnings

from hypothesis import strategies as st

from .. import cmp, engines, gen, schema, spec
from ..common import Failure
from . import c01

PID = "C15"

BASE_CFG = {
    "engines": ("pandas", "sqlite"),
    "max_nodes": 6,
    "n_tables": (1, 2),
    "final_order": 0.2,
    "ops": {"project": 4, "window": 4, "ordered_window": 3, "natural_join": 5, "concat_rows": 2, "convert_records": 2},
    "expr_mode": "text",
}

SUFFIXES = ["_tmp_right_col", "_da_right_tmp", "_da_left_tmp", "_da_join_tmp_key"]
VIEW_PREFIXES = [
    "extend_", "project_", "natural_join_", "join_source_left_", "join_source_right_", "table_reference_", "concat_rows_",
    "convert_records_blocks_in_", "convert_records_blocks_out_", "select_rows_", "select_columns_", "drop_columns_", "order_rows_",
    "map_columns_", "rename_",
]
KEYWORDS = ["select", "group", "order", "from", "where", "table", "join", "union", "index", "values", "by", "as"]
ORDINARY = ["alpha", "beta", "gamma", "delta", "eps", "zeta", "eta", "theta", "iota", "kappa", "lam", "mu", "nu", "xi", "omi", "pi2", "rho", "sig", "tau", "ups"]
SPACED = ["my col", "col 2", "a b c", "x-y", "p.q", "1st"]


def harvest_internal_names():
    """Scan the executors / SQL generator for string literals that look like internal scratch names, so that a
    newly introduced scratch name is picked up without editing this check."""
    import data_algebra

    root = os.path.dirname(data_algebra.__file__)
    names = set()
    pat = re.compile(r"""["']((?:_da_|_data_|data_algebra_|da_)[A-Za-z0-9_]*)["']""")
    for fn in ("pandas_base.py", "polars_model.py", "sql_model.py", "SQLite.py", "near_sql.py", "view_representations.py", "cdata.py", "db_model.py"):
        try:
            txt = open(os.path.join(root, fn)).read()
        except OSError:
            continue
        for m in pat.finditer(txt):
            n = m.group(1)
            if n.endswith("_"):
                n = n + "0"
            names.add(n)
        if fn in ("pandas_base.py", "polars_model.py"):
            # any identifier-like literal assigned as / used as a column inside the executors (catches scratch
            # names that do not follow the usual prefixes): res["name"] = ..., .alias("name"), "name" in by=[...]
            for m in re.finditer(r"""(?:\[\s*|alias\(\s*|_name\s*=\s*|_col\s*=\s*)f?["']([A-Za-z_][A-Za-z0-9_]{4,})["']""", txt):
                if "_" in m.group(1):
                    names.add(m.group(1))
    names |= {"_data_table_temp_col", "data_algebra_extend_temp_col_0", "data_algebra_project_temp_col_0", "_data_algebra_orig_index", "_data_algebra_temp_g", "data_algebra_temp_merge_col"}
    for p in VIEW_PREFIXES:
        for i in (0, 1, 2):
            names.add(f"{p}{i}")
    names |= {"table_values", "a", "b", "_index"}
    return sorted(names)


_INTERNAL = None
# engine -> names recorded in still-open findings as captured by that engine (set by run() after probing)
CLOSED_NAMES: dict = {}


def internal_names():
    global _INTERNAL
    if _INTERNAL is None:
        _INTERNAL = harvest_internal_names()
    return _INTERNAL


def case_names(case):
    """(table names, column names) mentioned anywhere in the reachable program."""
    tabs = spec.used_tables(case)
    cols = set()
    for tn in tabs:
        cols |= {e[0] for e in case["tables"][tn]["cols"]}
    sch = schema.infer(case)
    for i in spec.reachable(case):
        cols |= set(sch[i].names())
        nd = case["nodes"][i]
        if nd["op"] == "convert_records":
            for side in ("blocks_in", "blocks_out"):
                rs = nd["record_map"].get(side)
                if rs:
                    cols |= set(rs["control_table"]["cols"])
    return tabs, sorted(cols)


def rename_case(case, tmap, cmap):
    c = spec.clone(case)
    r = lambda x: cmap.get(x, x)
    c["tables"] = {}
    for tn, t in case["tables"].items():
        nt = spec.clone(t)
        nt["cols"] = [[r(e[0])] + list(e[1:]) for e in t["cols"]]
        nt["keys"] = [[r(k) for k in ks] for ks in t.get("keys", [])]
        c["tables"][tmap.get(tn, tn)] = nt
    for nd in c["nodes"]:
        op = nd["op"]
        if op == "table":
            nd["name"] = tmap.get(nd["name"], nd["name"])
        elif op in ("extend", "project"):
            nd["ops"] = [[r(k), spec.rename_expr(e, cmap)] for k, e in nd["ops"]]
            for key in ("partition_by", "order_by", "reverse", "group_by"):
                if isinstance(nd.get(key), list):
                    nd[key] = [r(x) for x in nd[key]]
        elif op == "select_rows":
            nd["expr"] = spec.rename_expr(nd["expr"], cmap)
        elif op in ("select_columns", "drop_columns"):
            nd["cols"] = [r(x) for x in nd["cols"]]
        elif op in ("rename_columns", "map_columns"):
            nd["mapping"] = [[r(a), (r(b) if b is not None else None)] for a, b in nd["mapping"]]
        elif op == "order_rows":
            nd["cols"] = [r(x) for x in nd["cols"]]
            nd["reverse"] = [r(x) for x in nd.get("reverse") or []]
        elif op == "natural_join":
            nd["on"] = [[r(a), r(b)] for a, b in nd["on"]]
        elif op == "concat_rows":
            if nd.get("id_column") is not None:
                nd["id_column"] = r(nd["id_column"])
        elif op == "convert_records":
            for side in ("blocks_in", "blocks_out"):
                rs = nd["record_map"].get(side)
                if not rs:
                    continue
                ct = rs["control_table"]
                keyidx = [ct["cols"].index(k) for k in rs["control_table_keys"]]
                ct["rows"] = [[(v if j in keyidx else r(v)) for j, v in enumerate(row)] for row in ct["rows"]]
                ct["cols"] = [r(x) for x in ct["cols"]]
                rs["record_keys"] = [r(x) for x in rs["record_keys"]]
                rs["control_table_keys"] = [r(x) for x in rs["control_table_keys"]]
    return c


_PARSER_WORDS = {"True", "False", "None", "and", "or", "not", "if", "else", "in", "is", "lambda"}


def needs_object_mode(names) -> bool:
    for n in names:
        if not n.isidentifier() or keyword.iskeyword(n) or n in _PARSER_WORDS:
            return True
    return False


def run_all(case):
    ops = spec.build(case)
    names = spec.used_tables(case)
    pt = spec.pandas_tables(case, names)
    res = {}
    try:
        res["pandas"] = engines.run_pandas(ops, pt)
    except engines.EngineError as e:
        res["pandas"] = e
    try:
        res["polars"] = engines.run_polars(ops, spec.polars_tables(case, names))
    except engines.EngineError as e:
        res["polars"] = e
    eng = engines.SQLiteEngine("sqlite")
    try:
        eng.load(pt)
        try:
            res["sqlite"] = eng.run(ops)
        except engines.EngineError as e:
            res["sqlite"] = e
    except Exception as e:  # loading a table with an odd name
        res["sqlite"] = engines.EngineError("sqlite", "load", e)
    finally:
        eng.close()
    return res


def check(wrapped):
    case = wrapped["case"]
    info = {}
    try:
        spec.build(case)
    except Exception as e:
        info["builder_rejected"] = str(e)
        return None, info
    tabs, cols = case_names(case)
    pool = wrapped["pool"]
    # injective assignment: walk the drawn pool, skip names already taken (case-insensitively: SQLite identifiers are)
    taken = set()
    cmap, tmap = {}, {}
    it = iter(pool)
    for old in cols + ["\x00table:" + t for t in tabs]:
        new = None
        for cand in it:
            if cand.lower() not in taken:
                new = cand
                break
        if new is None:
            new = f"fallback_{len(taken)}"
        taken.add(new.lower())
        if old.startswith("\x00table:"):
            tmap[old[7:]] = new
        else:
            cmap[old] = new
    # alphabetical flip: the new names sort in the REVERSE order of the old ones (anything that iterates over
    # sorted(names) / a set of names instead of the order the user gave reacts to this)
    if wrapped.get("flip_order") and len(cols) >= 2:
        olds = sorted(cols)
        news = sorted((cmap[o] for o in olds), reverse=True)
        cmap.update(dict(zip(olds, news)))
    # name + suffix collisions: map one column onto "<other new name><suffix>"
    if wrapped.get("suffix_pair") and len(cols) >= 2:
        a, b = cols[0], cols[1]
        cand = cmap[a] + wrapped["suffix_pair"]
        if cand.lower() not in taken:
            taken.discard(cmap[b].lower())
            cmap[b] = cand
            taken.add(cand.lower())
    # targeted placement (used by the per-name scan): put one given name on one column / table
    if wrapped.get("force_col") and cols:
        tgt = cols[wrapped.get("force_idx", 0) % len(cols)]
        if wrapped.get("force_on_one_join_side"):
            # prefer a column that exists on exactly ONE input of some join (a scratch name has to be free on both)
            try:
                sch = schema.infer(case)
                one_sided = []
                for i in spec.reachable(case):
                    nd = case["nodes"][i]
                    if nd["op"] == "natural_join":
                        ca, cb = set(sch[nd["a"]].names()), set(sch[nd["b"]].names())
                        keys = {x for pr in nd["on"] for x in pr}
                        one_sided += sorted((ca ^ cb) - keys)
                one_sided = [c for c in dict.fromkeys(one_sided) if c in cols]
                if one_sided:
                    tgt = one_sided[wrapped.get("force_idx", 0) % len(one_sided)]
            except Exception:  # noqa
                pass
        n = wrapped["force_col"]
        for k, v in list(cmap.items()):
            if v.lower() == n.lower() and k != tgt:
                cmap[k] = f"moved_{len(taken)}"
        cmap[tgt] = n
    if wrapped.get("force_table") and tabs:
        tgt = tabs[wrapped.get("force_idx", 0) % len(tabs)]
        tmap[tgt] = wrapped["force_table"]
    if wrapped.get("table_like_own_cte") is not None and tabs:
        # a table named like one of the query names THIS pipeline's SQL generates, in another letter case
        # (SQLite resolves "EXTEND_1" and "extend_1" to the same thing)
        try:
            import data_algebra.SQLite

            with warnings.catch_warnings():
                warnings.simplefilter("ignore")
                sql0 = data_algebra.SQLite.SQLiteModel().to_sql(spec.build(case))
            ctes = sorted(set(re.findall(r'"([a-z_]+_[0-9]+)" AS \(', sql0)))
        except Exception:  # noqa
            ctes = []
        if ctes:
            k = int(wrapped["table_like_own_cte"])
            name = ctes[k % len(ctes)]
            name = name.upper() if (k // len(ctes)) % 2 == 0 else name.capitalize()
            if name.lower() not in {v.lower() for v in tmap.values()}:
                tmap[tabs[wrapped.get("force_idx", 0) % len(tabs)]] = name
    # recorded scratch-name captures (open findings): engines are not compared on cases using those names
    skip_engines = set()
    for engine, rules in CLOSED_NAMES.items():
        for rule in rules:
            pos = rule.get("position", "any")
            used = (set(cmap.values()) if pos in ("any", "column") else set()) | (set(tmap.values()) if pos in ("any", "table") else set())
            # identifiers are compared the way the engines compare them: SQLite (and unquoted SQL in general) folds case
            if {n.lower() for n in rule.get("names", [])} & {u.lower() for u in used}:
                skip_engines.add(engine)
            for pat in rule.get("patterns", []):
                if any(re.fullmatch(pat, u, re.IGNORECASE) for u in used):
                    skip_engines.add(engine)
    info["skipped_engines"] = sorted(skip_engines)
    rc = rename_case(case, tmap, cmap)
    if needs_object_mode(list(cmap.values())):
        rc["expr_mode"] = "object"
        case = dict(case)
        case["expr_mode"] = "object"
    internal = set(internal_names()) | {v for v in cmap.values() if any(v.endswith(s) for s in SUFFIXES)}
    info["internal_hits"] = sorted(v for v in list(cmap.values()) + list(tmap.values()) if v in internal)
    try:
        spec.build(rc)
    except Exception as e:
        return (
            Failure(
                f"renamed pipeline is rejected by the builder: {type(e).__name__}: {e}",
                {"kind": "renamed_build_raises", "exc": type(e).__name__},
                {"column_map": cmap, "table_map": tmap},
            ),
            info,
        )
    base = run_all(case)
    ren = run_all(rc)
    ordered_by = c01.final_order_cols(rc)
    for engine in ("pandas", "polars", "sqlite"):
        a, b = base[engine], ren[engine]
        if engine in skip_engines:
            continue
        if isinstance(a, engines.EngineError):
            info["raised_" + engine] = True
            continue
        if isinstance(b, engines.EngineError):
            if engine == "polars" and "polars" in str(type(b.exc)).lower() and False:
                continue
            return (
                Failure(
                    f"{engine} fails only after renaming {cmap} / {tmap}: {b}",
                    {"kind": "renamed_raises", "engine": engine, "bucket": b.bucket()},
                    {"column_map": cmap, "table_map": tmap},
                ),
                info,
            )
        expect = ([cmap.get(c, c) for c in a[0]], a[1])
        d = cmp.compare(expect, b, ordered_by=ordered_by)
        if d is not None:
            return (
                Failure(
                    f"{engine} result changes under renaming {cmap} / {tmap}: {d}",
                    {"kind": "renamed_differs", "engine": engine},
                    {"expected": cmp.brief(expect), "got": cmp.brief(b), "column_map": cmap, "table_map": tmap},
                ),
                info,
            )
        info["compared_" + engine] = True
    return None, info


def replay(check_name, wrapped):
    f, _ = check(wrapped)
    return f


def wrapped_cases(cfg, ordinary=False):
    pool = internal_names()
    if ordinary:
        # ordinary identifiers only: no recorded scratch-name capture can exclude an engine, every engine is compared on
        # every case; what varies is the spelling and the alphabetical order of the names
        plain = ORDINARY + ["zz_" + x for x in ORDINARY[:8]] + ["aa_" + x for x in ORDINARY[8:16]] + ["m1", "m2", "m10", "B", "a", "Z"]
        return st.fixed_dictionaries(
            {
                "case": gen.programs(cfg),
                "pool": st.lists(st.sampled_from(plain), min_size=30, max_size=40),
                "suffix_pair": st.just(None),
                "flip_order": st.booleans(),
            }
        )
    name_st = st.one_of(
        st.sampled_from(pool),
        st.sampled_from(pool),
        st.sampled_from(KEYWORDS),
        st.sampled_from(ORDINARY),
        st.sampled_from(SPACED),
        st.sampled_from([p.upper() for p in ORDINARY[:5]] + ["Select", "ID", "Extend_0"]),
    )
    # letter-case variants of generated query names as TABLE names (SQLite compares identifiers case-insensitively)
    case_variants = [f(p) + str(n) for p in VIEW_PREFIXES for n in range(4) for f in (str.upper, str.capitalize)]
    return st.fixed_dictionaries(
        {
            "case": gen.programs(cfg),
            "pool": st.lists(name_st, min_size=30, max_size=40),
            "suffix_pair": st.sampled_from([None, None] + SUFFIXES),
            "flip_order": st.booleans(),
            "force_table": st.one_of(st.none(), st.none(), st.sampled_from(case_variants)),
            "table_like_own_cte": st.one_of(st.none(), st.none(), st.sampled_from(range(8))),
            "force_idx": st.sampled_from(range(4)),
        }
    )


def join_scratch_cases(cfg):
    """Join-heavy programs whose names come from the scratch / alias names a join uses (guard, merge and suffix columns,
    join aliases), placed on one chosen column: the place where 'a scratch name must be free on BOTH inputs' matters."""
    names = [x for x in internal_names() if any(k in x for k in ("null_key", "merge_col", "_da_right", "_da_left"))]
    return st.fixed_dictionaries(
        {
            "case": gen.programs(cfg),
            "pool": st.lists(st.sampled_from(ORDINARY + ["zz_" + x for x in ORDINARY[:6]]), min_size=30, max_size=40),
            "suffix_pair": st.sampled_from([None, None] + SUFFIXES),
            "flip_order": st.just(False),
            "force_col": st.sampled_from(names),
            "force_idx": st.sampled_from(range(12)),
            "force_on_one_join_side": st.sampled_from([True, True, False]),
        }
    )


def run(ctx):
    ev = ctx.ev
    n_int = len(internal_names())
    ev.rule = (
        f"random operator DAGs (vp.gen.programs) x an injective renaming of every table and column name into a pool of {n_int} internal "
        "names harvested from the executor / SQL-generator sources (scratch columns, view names, join aliases) plus '<column><join suffix>' "
        "collisions, SQL keywords, mixed case and names with spaces; Pandas, Polars (eager) and SQLite each compared with their own result "
        "on the original names; non-trivial = at least one name was mapped onto an internal name and >=1 engine was compared; "
        "distinct = SHA-1 of (case, name pool)"
    )
    ev.assumptions = [
        "names never contain the identifier quote characters \" or ` (documented precondition) and differ by more than letter case (SQLite identifiers are case-insensitive)",
        "expressions over names that are not Python identifiers are built through the Term object API (the text parser cannot name them)",
        "an engine that raises on the ORIGINAL names is not judged",
    ]
    ev.extra["internal_name_pool"] = internal_names()
    ctx.probe_findings(replay)
    CLOSED_NAMES.clear()
    for e in ctx.findings.still_failing.values():
        for engine, rule in (e.get("closed_names") or {}).items():
            CLOSED_NAMES.setdefault(engine, []).append(rule)
    cfg = dict(BASE_CFG)
    cfg["closed"] = set(ctx.closed)

    def oracle(w):
        f, info = check(w)
        fs = gen.features(w["case"])
        compared = [e for e in ("pandas", "polars", "sqlite") if info.get("compared_" + e)]
        nt = (bool(info.get("internal_hits")) or bool(w.get("flip_order"))) and bool(compared)
        ev.note(w, nt, fs + ["compared_" + e for e in compared], sample={"program": c01._sample(w["case"]), "internal_names_used": info.get("internal_hits")})
        for k in ("builder_rejected", "raised_pandas", "raised_polars", "raised_sqlite"):
            if info.get(k):
                ev.count(k)
        for e in info.get("skipped_engines", []):
            ev.count("excluded_by_construction:" + e)
        return f

    ctx.campaign("main", wrapped_cases(cfg), oracle, max_examples=ctx.n(250, 32000))
    # ordinary names, programs biased to steps whose semantics depend on a user-given column ORDER (multi-column order_by /
    # order_rows / partition lists / join key lists)
    ocfg = dict(cfg)
    ocfg.update({"ops": {"ordered_window": 8, "order_rows": 4, "window": 3, "project": 3, "natural_join": 4, "extend": 3}, "final_order": 0.5, "extend_then_ordered_window_prob": 0.3})
    ctx.campaign("ordinary_names", wrapped_cases(ocfg, ordinary=True), oracle, max_examples=ctx.n(200, 24000))
    jcfg = dict(cfg)
    jcfg.update({"ops": {"natural_join": 10, "extend": 2, "select_rows": 1, "project": 1, "window": 0, "ordered_window": 0, "concat_rows": 1, "convert_records": 0}, "max_nodes": 4, "n_tables": (2, 2), "final_order": 0.1, "force_cols": ["g"], "force_cols_nullable": True, "nullable_join_key_prob": 0.9, "max_rows": 4, "null_rate": 0.4})
    ctx.campaign("join_scratch", join_scratch_cases(jcfg), oracle, max_examples=ctx.n(800, 24000))
