"""C24 — OrderedSet is a set that remembers first insertion order (stateful, model-based).

Model: a Python list without repeats (first-insertion order) + the plain `set` of its elements.
Iteration order is checked wherever the class fixes it (construction, add/update/|=, discard/remove/
-=/&=/^=, copy, union(), the ordered_* helpers); for the binary operators inherited from
collections.abc.Set only the element set is checked (see DESIGN.md C24: the mixin walks the right
operand, and nothing promises the left order there).
"""

from __future__ import annotations

from hypothesis import strategies as st
from hypothesis.stateful import RuleBasedStateMachine, invariant, rule

from ..common import Failure, MachineMixin

PID = "C24"
SHARDABLE = True

POOL = [0, 1, 2, 3, "a", "b", [1, 2], 2.0]  # JSON-able; lists stand for tuples


def _el(x):
    return tuple(x) if isinstance(x, list) else x


def _els(xs):
    return [_el(x) for x in xs]


def _dedupe(xs):
    out = []
    for x in xs:
        if x not in out:
            out.append(x)
    return out


def _mk_arg(kind, xs):
    from data_algebra.OrderedSet import OrderedSet

    xs = _els(xs)
    if kind == "oset":
        return OrderedSet(xs)
    if kind == "tuple":
        return tuple(xs)
    if kind == "iter":
        return iter(list(xs))  # a one-shot iterator is an Iterable too
    if kind == "gen":
        return (x for x in list(xs))
    if kind == "dictkeys":
        return dict.fromkeys(xs).keys()
    return list(xs)


class State:
    def __init__(self):
        from data_algebra.OrderedSet import OrderedSet

        self.real = OrderedSet()
        self.model = []
        self.removed = set()


def check_state(s: State, where: str):
    got = list(s.real)
    if got != s.model or [type(a) for a in got] != [type(a) for a in s.model]:
        return Failure(
            f"iteration order/content differs after {where}: got {got!r}, model {s.model!r}",
            {"kind": "order", "op": where.split(" ")[0]},
        )
    if len(s.real) != len(s.model):
        return Failure(f"len differs after {where}", {"kind": "len"})
    for e in _els(POOL):
        if (e in s.real) != (e in s.model):
            return Failure(f"membership of {e!r} differs after {where}", {"kind": "member"})
    try:
        plain = set(s.model)
        if not (s.real == plain) or (s.real != plain):
            return Failure(f"== with plain set differs after {where}", {"kind": "eq"})
    except TypeError:
        pass
    return None


def apply_op(s: State, op) -> "Failure | None":
    """Apply one plain-data op to implementation and model; compare."""
    from data_algebra.OrderedSet import OrderedSet

    name = op[0]
    where = f"{name} {op[1:]!r}"
    if name == "new":
        xs = _els(op[1])
        s.real = OrderedSet(xs)
        s.model = _dedupe(xs)
    elif name == "add":
        e = _el(op[1])
        s.real.add(e)
        if e not in s.model:
            s.model.append(e)
    elif name == "discard":
        e = _el(op[1])
        s.real.discard(e)
        if e in s.model:
            s.model.remove(e)
            s.removed.add(repr(e))
    elif name == "remove":
        e = _el(op[1])
        raised = False
        try:
            s.real.remove(e)
        except KeyError:
            raised = True
        if raised != (e not in s.model):
            return Failure(f"remove({e!r}) raised={raised} but present={e in s.model}", {"kind": "remove"})
        if e in s.model:
            s.model.remove(e)
            s.removed.add(repr(e))
    elif name == "pop":
        raised = False
        v = None
        try:
            v = s.real.pop()
        except KeyError:
            raised = True
        if raised != (len(s.model) == 0):
            return Failure(f"pop raised={raised} on model {s.model!r}", {"kind": "pop"})
        if not raised:
            if v not in s.model:
                return Failure(f"pop returned non-member {v!r}", {"kind": "pop"})
            s.model.remove(v)
    elif name == "clear":
        s.real.clear()
        s.model = []
    elif name == "update":
        args = [_mk_arg(k, xs) for k, xs in op[1]]
        s.real.update(*args)
        for k, xs in op[1]:
            for e in _els(xs):
                if e not in s.model:
                    s.model.append(e)
    elif name in ("ior", "iand", "isub", "ixor"):
        kind, xs = op[1]
        arg = _mk_arg(kind, xs)
        xs = _els(xs)
        if name == "ior":
            s.real |= arg
            for e in xs:
                if e not in s.model:
                    s.model.append(e)
        elif name == "iand":
            s.real &= arg
            s.model = [e for e in s.model if e in xs]
        elif name == "isub":
            s.real -= arg
            s.model = [e for e in s.model if e not in xs]
        else:
            s.real ^= arg
            # MutableSet.__ixor__: toggles each value of the argument (as a set) in turn
            dx = _dedupe(xs)
            keep = [e for e in s.model if e not in dx]
            new = [e for e in dx if e not in s.model]
            s.model = keep + new
        if not isinstance(s.real, OrderedSet):
            return Failure(f"in-place {name} replaced the object by {type(s.real)}", {"kind": "inplace"})
    elif name == "copy":
        c = s.real.copy()
        if c is s.real:
            return Failure("copy returned self", {"kind": "copy"})
        before = list(s.real)
        c.add("__copy_probe__")
        if list(s.real) != before:
            return Failure("mutating a copy changed the original", {"kind": "copy"})
        c.discard("__copy_probe__")
        s.real = c
    elif name == "union":
        args = [_mk_arg(k, xs) for k, xs in op[1]]
        r = s.real.union(*args)
        exp = list(s.model)
        for k, xs in op[1]:
            for e in _els(xs):
                if e not in exp:
                    exp.append(e)
        if list(r) != exp:
            return Failure(f"union order: got {list(r)!r} expected {exp!r}", {"kind": "union"})
    elif name in ("and", "or", "sub", "xor", "intersection", "difference", "symmetric_difference"):
        kind, xs = op[1]
        arg = _mk_arg("oset", xs)  # Set mixin operators need a Set/Iterable; use OrderedSet
        xs = _els(xs)
        ms, xsset = s.model, _dedupe(xs)
        if name in ("and", "intersection"):
            r = (s.real & arg) if name == "and" else s.real.intersection(arg)
            exp = [e for e in ms if e in xsset]
        elif name == "or":
            r = s.real | arg
            exp = ms + [e for e in xsset if e not in ms]
        elif name in ("sub", "difference"):
            r = (s.real - arg) if name == "sub" else s.real.difference(arg)
            exp = [e for e in ms if e not in xsset]
        else:
            r = (s.real ^ arg) if name == "xor" else s.real.symmetric_difference(arg)
            exp = [e for e in ms if e not in xsset] + [e for e in xsset if e not in ms]
        got = list(r)
        if len(got) != len(_dedupe(got)):
            return Failure(f"{name} result has repeats {got!r}", {"kind": "binop"})
        if len(got) != len(exp) or any(e not in exp for e in got) or any(e not in got for e in exp):
            return Failure(f"{name} element set: got {got!r} expected {exp!r}", {"kind": "binop"})
    elif name == "cmp":
        kind, xs = op[1]
        xs = _dedupe(_els(xs))
        arg = OrderedSet(xs)
        ms = s.model
        sub = all(e in xs for e in ms)
        sup = all(e in ms for e in xs)
        eq = sub and sup
        obs = {
            "<=": s.real <= arg,
            "<": s.real < arg,
            ">=": s.real >= arg,
            ">": s.real > arg,
            "==": s.real == arg,
            "!=": s.real != arg,
        }
        exp = {"<=": sub, "<": sub and not eq, ">=": sup, ">": sup and not eq, "==": eq, "!=": not eq}
        if obs != exp:
            return Failure(f"comparisons with {xs!r}: got {obs!r} expected {exp!r}", {"kind": "cmp"})
    else:
        raise ValueError(f"unknown op {op!r}")
    return check_state(s, where)


def run_history(history) -> "Failure | None":
    s = State()
    for op in history:
        f = apply_op(s, op)
        if f is not None:
            return f
    return None


def check_helpers(case) -> "Failure | None":
    from data_algebra.OrderedSet import OrderedSet, ordered_diff, ordered_intersect, ordered_union

    a, b = _els(case["a"]), _els(case["b"])
    da, db = _dedupe(a), _dedupe(b)
    exp = {
        "ordered_union": da + [e for e in db if e not in da],
        "ordered_intersect": [e for e in da if e in db],
        "ordered_diff": [e for e in da if e not in db],
    }
    fns = {"ordered_union": ordered_union, "ordered_intersect": ordered_intersect, "ordered_diff": ordered_diff}
    for k, fn in fns.items():
        for wrap in ("list", "oset", "tuple", "iter", "gen", "dictkeys", ("list", "iter"), ("gen", "oset"), ("oset", "gen")):
            wa, wb = (wrap, wrap) if isinstance(wrap, str) else wrap
            aa, bb = _mk_arg(wa, case["a"]), _mk_arg(wb, case["b"])
            r = fn(aa, bb)
            if not isinstance(r, OrderedSet):
                return Failure(f"{k} returned {type(r)}", {"kind": "helper", "fn": k})
            if list(r) != exp[k]:
                return Failure(
                    f"{k}({a!r}, {b!r}) = {list(r)!r}, expected {exp[k]!r}", {"kind": "helper", "fn": k}
                )
            if (wa == "oset" and list(aa) != da) or (wb == "oset" and list(bb) != db):
                return Failure(f"{k} modified its arguments", {"kind": "helper", "fn": k})
    return None


# ---- strategies ---------------------------------------------------------------------------------

el_st = st.sampled_from(POOL)
lst_st = st.lists(el_st, max_size=6)
arg_st = st.tuples(st.sampled_from(["list", "oset", "tuple"]), lst_st).map(list)


class OrderedSetMachine(MachineMixin, RuleBasedStateMachine):
    def __init__(self):
        RuleBasedStateMachine.__init__(self)
        self.init_machine()
        self.s = State()

    def _do(self, op):
        if self.dead:
            return
        self.history.append(op)
        self.feats.add(op[0])
        if op[0] in ("ior", "iand", "isub", "ixor"):
            self.nontrivial = True
        if op[0] == "add" and repr(_el(op[1])) in self.s.removed:
            self.nontrivial = True
            self.feats.add("readd_after_discard")
        f = apply_op(self.s, op)
        if f is not None:
            self.fail(f)

    @rule(xs=lst_st)
    def new(self, xs):
        self._do(["new", xs])

    @rule(e=el_st)
    def add(self, e):
        self._do(["add", e])

    @rule(e=el_st)
    def discard(self, e):
        self._do(["discard", e])

    @rule(e=el_st)
    def remove(self, e):
        self._do(["remove", e])

    @rule()
    def pop(self):
        self._do(["pop"])

    @rule()
    def clear(self):
        self._do(["clear"])

    @rule(args=st.lists(arg_st, max_size=3))
    def update(self, args):
        self._do(["update", args])

    @rule(name=st.sampled_from(["ior", "iand", "isub", "ixor"]), arg=arg_st)
    def inplace(self, name, arg):
        self._do([name, arg])

    @rule()
    def copy(self):
        self._do(["copy"])

    @rule(args=st.lists(arg_st, max_size=3))
    def union(self, args):
        self._do(["union", args])

    @rule(
        name=st.sampled_from(["and", "or", "sub", "xor", "intersection", "difference", "symmetric_difference"]),
        arg=arg_st,
    )
    def binop(self, name, arg):
        self._do([name, arg])

    @rule(arg=arg_st)
    def cmp(self, arg):
        self._do(["cmp", arg])

    def teardown(self):
        self.finish_machine()


def replay(check, case):
    if check == "helpers":
        return check_helpers(case)
    return run_history(case)


def run(ctx):
    ev = ctx.ev
    ev.rule = (
        "histories of OrderedSet operations drawn by a Hypothesis RuleBasedStateMachine (12 rules over an "
        "8-value pool incl. equal-but-distinct 2/2.0), compared step by step with a list+set model; "
        "non-trivial = history containing an in-place operator or a re-add of a previously removed element; "
        "plus stateless ordered_union/intersect/diff cases (non-trivial = both arguments non-empty with a repeat "
        "or an overlap). distinct = SHA-1 of the history / argument pair."
    )
    ev.assumptions = [
        "iteration order of results of the collections.abc.Set mixin operators (& | - ^) is not checked, only their element set",
        "elements are hashable values with a consistent ==/hash (ints, strs, tuples, floats)",
    ]
    ctx.probe_findings(replay)
    ctx.machine_campaign("history", OrderedSetMachine, max_examples=ctx.n(400, 40000), step_count=40)

    def helper_oracle(case):
        a, b = _els(case["a"]), _els(case["b"])
        nt = bool(a) and bool(b) and (len(_dedupe(a)) < len(a) or any(e in b for e in a))
        ev.note(case, nt, ["helpers"])
        return check_helpers(case)

    ctx.campaign(
        "helpers",
        st.fixed_dictionaries({"a": st.lists(el_st, max_size=8), "b": st.lists(el_st, max_size=8)}),
        helper_oracle,
        max_examples=ctx.n(1500, 100000),
    )
