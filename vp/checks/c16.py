"""C16 — natural_join matches SQL join semantics on every backend.

Oracle = a hand-written native SQL join executed on SQLite 3.40 (native INNER/LEFT/RIGHT/FULL/CROSS),
   SELECT COALESCE(l.k, r.k) AS k, COALESCE(l.s, r.s) AS s, l.p, r.q FROM l <JT> JOIN r ON l.k = r.k ...
cross-checked against the nested-loop reference join in vp.ref (they must agree, else HarnessError).
Each of Pandas, Polars eager, Polars lazy, SQLite-dialect SQL (RIGHT/FULL emulated by the library) and
PostgreSQL-dialect SQL on the surrogate (native joins) must return that multiset of rows and the declared columns.
"""

from __future__ import annotations

from hypothesis import strategies as st

from .. import cmp, engines, gen, ref, spec
from ..common import Failure, HarnessError

PID = "C16"

KEYVALS = {"int": [0, 1, 2], "str": ["a", "b", "c"], "float": [0.5, 1.0, 2.5]}
ENGINES = ["pandas", "polars", "polars_lazy", "sqlite", "pg"]


@st.composite
def join_cases(draw):
    pick = lambda xs: draw(st.sampled_from(xs))
    jt = pick(["inner", "left", "right", "full", "cross", "inner", "left", "right", "full"])
    nkeys = 0 if jt == "cross" else pick([1, 1, 2])
    lcols, rcols, on = [], [], []
    key_specs = []
    names_l = ["k", "g", "h"]
    names_r_alt = ["n", "u", "w"]
    for i in range(nkeys):
        t = pick(["int", "str", "float"])
        same = draw(st.booleans()) or i == 1 and draw(st.booleans())
        ln = names_l[i]
        rn = ln if same else names_r_alt[i]
        nullable = draw(st.booleans())
        key_specs.append((ln, rn, t, nullable))
        lcols.append([ln, t, nullable])
        rcols.append([rn, t, nullable])
        on.append([ln, rn])
    # shared non-key column(s), private columns
    if draw(st.booleans()):
        t = pick(["float", "str"])
        lcols.append(["s", t, True])
        rcols.append(["s", t, True])
    if draw(st.booleans()):
        lcols.append(["c", "int", False])
        rcols.append(["c", "int", False])
    lcols.append(["p", pick(["int", "float"]), False])
    rcols.append(["q", pick(["int", "str"]), False])
    if draw(st.booleans()):
        lcols = list(draw(st.permutations(lcols)))
    if draw(st.booleans()):
        rcols = list(draw(st.permutations(rcols)))

    def rows(cols, n, side):
        out = []
        for i in range(n):
            r = []
            for name, t, nullable in cols:
                if name in ("p", "q", "c"):
                    v = {"int": i + (10 if side == "l" else 20), "float": i + 0.5, "str": f"{side}{i}"}[t]
                elif nullable and draw(st.sampled_from(range(10))) < 3:
                    v = None
                else:
                    v = pick(KEYVALS[t]) if name != "s" else pick({"float": [0.25, 4.0], "str": ["x", "y"]}[t])
                r.append(v)
            out.append(r)
        return out

    nl = pick([0, 1, 2, 3, 4, 5, 6])
    nr = pick([0, 1, 2, 3, 4, 5, 6])
    tables = {"l": {"cols": lcols, "rows": rows(lcols, nl, "l"), "keys": []}, "r": {"cols": rcols, "rows": rows(rcols, nr, "r"), "keys": []}}
    nodes = [{"op": "table", "name": "l"}, {"op": "table", "name": "r"}]
    a, b = 0, 1
    # optionally join sub-pipelines instead of bare tables
    sub = pick(["none", "none", "left", "right", "both"])
    if sub in ("left", "both"):
        nodes.append({"op": "extend", "src": 0, "ops": [["p", ["call", "+", [["col", "p"], ["lit", 1]]]]]})
        a = len(nodes) - 1
    if sub in ("right", "both"):
        nodes.append({"op": "select_rows", "src": 1, "expr": ["call", "is_null", [["col", "q"]]]})
        nodes[-1]["expr"] = ["call", "not", [nodes[-1]["expr"]]]
        b = len(nodes) - 1
    nodes.append({"op": "natural_join", "a": a, "b": b, "on": on, "jointype": jt})
    return {"tables": tables, "nodes": nodes, "root": len(nodes) - 1, "expr_mode": "text", "sub": sub}


def native_sql(case):
    nd = case["nodes"][case["root"]]
    lc = [e[0] for e in case["tables"]["l"]["cols"]]
    rc = [e[0] for e in case["tables"]["r"]["cols"]]
    terms = []
    for c in lc:
        if c in rc:
            terms.append(f'COALESCE(l."{c}", r."{c}") AS "{c}"')
        elif c == "p" and case.get("sub") in ("left", "both"):
            terms.append('l."p" + 1 AS "p"')
        else:
            terms.append(f'l."{c}" AS "{c}"')
    for c in rc:
        if c not in lc:
            terms.append(f'r."{c}" AS "{c}"')
    jt = nd["jointype"].upper()
    if jt == "CROSS":
        join = 'FROM "l" l CROSS JOIN "r" r'
    else:
        cond = " AND ".join(f'l."{a}" = r."{b}"' for a, b in nd["on"])
        join = f'FROM "l" l {jt} JOIN "r" r ON {cond}'
    return "SELECT " + ", ".join(terms) + " " + join


def oracle_rows(case):
    tables = spec.pandas_tables(case, ["l", "r"])
    eng = engines.SQLiteEngine("sqlite")
    try:
        eng.load(tables)
        sql_cols, sql_rows = eng.query(native_sql(case))
    finally:
        eng.close()
    nd = case["nodes"][case["root"]]
    lt, rt = case["tables"]["l"], case["tables"]["r"]
    lrows = [[cmp.norm_cell(v) for v in r] for r in lt["rows"]]
    rrows = [[cmp.norm_cell(v) for v in r] for r in rt["rows"]]
    lcols = [e[0] for e in lt["cols"]]
    if case.get("sub") in ("left", "both"):
        pi = lcols.index("p")
        for r in lrows:
            r[pi] = r[pi] + 1
    rc, rr = ref.natural_join(lcols, lrows, [e[0] for e in rt["cols"]], rrows, nd["on"], nd["jointype"])
    d = cmp.compare((sql_cols, sql_rows), (rc, rr))
    if d is not None:
        raise HarnessError(f"native SQL oracle and nested-loop reference disagree: {d}\n{native_sql(case)}")
    return sql_cols, sql_rows


def has_null_key_both_sides(case) -> bool:
    nd = case["nodes"][case["root"]]
    for a, b in nd["on"]:
        la = [e[0] for e in case["tables"]["l"]["cols"]].index(a)
        rb = [e[0] for e in case["tables"]["r"]["cols"]].index(b)
        if any(r[la] is None for r in case["tables"]["l"]["rows"]) and any(r[rb] is None for r in case["tables"]["r"]["rows"]):
            return True
    return False


def has_null_key(case) -> bool:
    nd = case["nodes"][case["root"]]
    for a, b in nd["on"]:
        la = [e[0] for e in case["tables"]["l"]["cols"]].index(a)
        rb = [e[0] for e in case["tables"]["r"]["cols"]].index(b)
        if any(r[la] is None for r in case["tables"]["l"]["rows"]) or any(r[rb] is None for r in case["tables"]["r"]["rows"]):
            return True
    return False


def region(case):
    """Feature facts used to match / exclude recorded findings."""
    nd = case["nodes"][case["root"]]
    jt = nd["jointype"].lower()
    return {
        "jointype": jt,
        "diffname": any(a != b for a, b in nd["on"]),
        "null_key_both": has_null_key_both_sides(case),
        "null_key": has_null_key(case),
    }


# flag -> predicate(engine, region): engine is not judged in that region while the finding is open
SKIP_RULES = {
    "null_join_key": lambda e, r: e == "pandas" and r["null_key_both"],
    "full_join_diffname": lambda e, r: e == "sqlite" and r["jointype"] == "full" and r["diffname"],
    "null_full_join_key": lambda e, r: e == "sqlite" and r["jointype"] == "full" and r["null_key"],
}


def check(case, closed=()):
    info = {}
    ops = spec.build(case)
    declared = list(ops.column_names)
    exp = oracle_rows(case)
    if set(exp[0]) != set(declared):
        raise HarnessError(f"oracle columns {exp[0]} != declared {declared}")
    reg = region(case)
    pt = spec.pandas_tables(case, ["l", "r"])
    results = {}
    for e in ENGINES:
        if case.get("only_engines") and e not in case["only_engines"]:
            continue  # regression replays of one engine's fixed defect
        if any(SKIP_RULES[f](e, reg) for f in closed if f in SKIP_RULES):
            info.setdefault("skipped", []).append(e)
            continue
        try:
            if e == "pandas":
                results[e] = engines.run_pandas(ops, pt)
            elif e.startswith("polars"):
                results[e] = engines.run_polars(ops, spec.polars_tables(case, ["l", "r"]), lazy=(e == "polars_lazy"))
            else:
                eng = engines.SQLiteEngine(e)
                try:
                    eng.load(pt)
                    results[e] = eng.run(ops)
                finally:
                    eng.close()
        except engines.EngineError as err:
            if engines.engine_limit(err) or (e == "pg" and engines.surrogate_cannot_run(err)):
                info["surrogate_cannot_run"] = True
                continue
            return (
                Failure(
                    f"{e} raises on a {reg['jointype']} join ({err}) where the SQL oracle returns {len(exp[1])} rows",
                    {"kind": "raises", "engine": e, **reg, "bucket": err.bucket()},
                ),
                info,
            )
    for e, got in results.items():
        d = cmp.compare(exp, got)
        if d is not None:
            return (
                Failure(
                    f"{e} {reg['jointype']} join differs from the standard SQL join: {d}",
                    {"kind": "differs", "engine": e, **reg},
                    {"expected": cmp.brief(exp, 12), "got": cmp.brief(got, 12), "oracle_sql": native_sql(case)},
                ),
                info,
            )
    info["engines"] = sorted(results)
    return None, info


CLOSED: set = set()  # flags of still-open findings; set by run() between the open probes and the regression replays


def replay(check_name, case):
    f, _ = check(case, CLOSED)
    return f


def nontrivial(case) -> bool:
    nd = case["nodes"][case["root"]]
    lt, rt = case["tables"]["l"], case["tables"]["r"]
    if not nd["on"]:
        return len(lt["rows"]) > 0 and len(rt["rows"]) > 0
    dup = False
    for a, b in nd["on"]:
        la = [e[0] for e in lt["cols"]].index(a)
        rb = [e[0] for e in rt["cols"]].index(b)
        lv = [r[la] for r in lt["rows"]]
        rv = [r[rb] for r in rt["rows"]]
        if len(set(map(repr, lv))) < len(lv) or len(set(map(repr, rv))) < len(rv):
            dup = True
    shared_null = False
    if "s" in [e[0] for e in lt["cols"]]:
        si = [e[0] for e in lt["cols"]].index("s")
        shared_null = any(r[si] is None for r in lt["rows"])
    return dup or has_null_key(case) or shared_null


def run(ctx):
    ev = ctx.ev
    ev.rule = (
        "two tables of 0-6 rows with 0-2 key pairs (same or different names; int/str/float; values from a 3-value pool plus NULL so "
        "duplicates are the norm), shared non-key columns with NULLs, private columns; inner/left/right/full/cross applied to tables or "
        "sub-pipelines; every engine compared with a hand-written native SQL join on SQLite (itself cross-checked against a nested-loop "
        "reference); non-trivial = duplicate key on a side, or a NULL key, or a shared non-key column with a left NULL; distinct = SHA-1 "
        "of the case JSON"
    )
    ev.assumptions = [
        "SQLite 3.40's native INNER/LEFT/RIGHT/FULL/CROSS JOIN is the 'corresponding standard SQL join' of the property",
        "PostgreSQL-dialect SQL is executed on the SQLite surrogate",
        "engines inside a region covered by a recorded open finding are not judged there (counted as excluded)",
    ]
    ev.trusted_base = ["SQLite 3.40.1 native joins", "vp.ref.natural_join (cross-checked against SQLite on every case)", "vp.cmp"]
    CLOSED.clear()
    ctx.probe_findings(replay, after_open=lambda flags: CLOSED.update(flags))
    closed = set(ctx.closed)

    def oracle(case):
        f, info = check(case, closed)
        reg = region(case)
        fs = ["jt_" + reg["jointype"]] + [k for k in ("diffname", "null_key", "null_key_both") if reg[k]] + ["sub_" + case.get("sub", "none")]
        fs += ["engine_" + e for e in info.get("engines", [])]
        ev.note(case, nontrivial(case), fs, sample={"tables": case["tables"], "join": case["nodes"][case["root"]]})
        for e in info.get("skipped", []):
            ev.count("excluded_by_construction:" + e)
        if info.get("surrogate_cannot_run"):
            ev.count("surrogate_cannot_run")
        return f

    ctx.campaign("main", join_cases(), oracle, max_examples=ctx.n(900, 96000))
