"""C01 — SQLite SQL computes the same table as the Pandas executor (differential)."""

from __future__ import annotations

from .. import cmp, engines, gen, schema, spec
from ..common import Failure

PID = "C01"

# feature flags closed by still-present known findings are added at run time (ctx.closed)
BASE_CFG = {"engines": ("pandas", "sqlite"), "max_nodes": 7, "n_tables": (1, 2), "final_order": 0.3,
            "shape": "diamond", "shape_prob": 0.3, "reuse_bias": True, "extend_then_ordered_window_prob": 0.15, "block_table_prob": 0.1,
            "extend_then_partition_window_prob": 0.1, "concat_with_source_prob": 0.12, "drop_order_col_prob": 0.4}


def final_order_cols(case):
    nd = case["nodes"][case["root"]]
    if nd["op"] == "order_rows":
        return list(nd["cols"])
    return None


def zn_columns(case):
    sch = schema.infer(case)[case["root"]]
    return [c for c, v in sch.cols.items() if v["zn"]]


def has_nullable_join_key(case) -> bool:
    sch = schema.infer(case)
    for i in spec.reachable(case):
        nd = case["nodes"][i]
        if nd["op"] == "natural_join":
            for ka, kb in nd["on"]:
                if sch[nd["a"]].cols[ka]["null"] and sch[nd["b"]].cols[kb]["null"]:
                    return True
    return False


def differential(case, dialect="sqlite", fmt=None):
    """Pandas vs SQL-on-SQLite for one case. Returns (Failure|None, info)."""
    info = {}
    try:
        ops = spec.build(case)
    except Exception as e:  # generator produced something the builder rejects: not this property's business
        info["builder_rejected"] = f"{type(e).__name__}: {e}"
        return None, info
    names = spec.used_tables(case)
    tables = spec.pandas_tables(case, names)
    zn = zn_columns(case)
    ordered_by = final_order_cols(case)
    try:
        p = engines.run_pandas(ops, tables)
        perr = None
    except engines.EngineError as e:
        p, perr = None, e
    eng = engines.SQLiteEngine(dialect)
    try:
        eng.load(tables)
        try:
            q = eng.run(ops, fmt)
            qerr = None
        except engines.EngineError as e:
            q, qerr = None, e
    finally:
        eng.close()
    if perr is not None and qerr is not None:
        info["both_raised"] = perr.bucket() + " | " + qerr.bucket()
        return None, info
    if perr is not None:
        return (
            Failure(
                f"Pandas raised but {dialect} SQL returned: {perr}",
                {"kind": "pandas_raised", "bucket": perr.bucket()},
                {"sql_result": cmp.brief(q)},
            ),
            info,
        )
    if qerr is not None:
        if engines.engine_limit(qerr) or (dialect == "pg" and engines.surrogate_cannot_run(qerr)):
            info["surrogate_cannot_run"] = str(qerr)[:200]
            return None, info
        return (
            Failure(
                f"{dialect} SQL raised but Pandas returned: {qerr}",
                {"kind": "sql_raised", "stage": qerr.stage, "bucket": qerr.bucket()},
                {"pandas_result": cmp.brief(p)},
            ),
            info,
        )
    d = cmp.compare(p, q, ordered_by=ordered_by, zn_cols=zn)
    if d is not None:
        return (
            Failure(
                f"Pandas and {dialect} SQL differ: {d}",
                {"kind": "mismatch", "null_join_key": has_nullable_join_key(case)},
                {"pandas": cmp.brief(p), "sql": cmp.brief(q)},
            ),
            info,
        )
    info["rows"] = len(p[1])
    return None, info


def nontrivial(case, fs):
    return gen.n_ops(case) >= 2 and any(
        f in fs
        for f in (
            "join",
            "project",
            "project_ungrouped",
            "window",
            "ordered_window",
            "convert_records",
            "dag_reuse",
            "empty_table",
            "concat_rows",
        )
    )


def make_oracle(ctx, dialect="sqlite"):
    def oracle(case):
        f, info = differential(case, dialect)
        fs = gen.features(case)
        ctx.ev.note(case, nontrivial(case, fs), fs, sample={"program": _sample(case)})
        for k in ("builder_rejected", "both_raised", "surrogate_cannot_run"):
            if k in info:
                ctx.ev.count(k)
        if case.get("excluded_by_construction"):
            ctx.ev.count("excluded_by_construction", case["excluded_by_construction"])
        return f

    return oracle


def _sample(case):
    try:
        return spec.build(case).to_python(pretty=False).strip()
    except Exception as e:
        return f"<unbuildable: {e}>"


def replay(check, case):
    f, _ = differential(case, "sqlite")
    return f


def run(ctx):
    ev = ctx.ev
    ev.rule = (
        "random well-typed operator DAGs (vp.gen.programs: 1-2 tables of 0-7 rows with nulls/duplicates/ties, "
        "<=7 operator nodes incl. joins, concat, windows, projects, record maps, DAG reuse) evaluated by Pandas and by "
        "to_sql()+SQLite; non-trivial = >=2 operator nodes and at least one of join/project/window/ordered window/"
        "convert_records/concat/DAG reuse/empty table; distinct = SHA-1 of the case JSON"
    )
    ev.assumptions = [
        "method fragment = 'core' entries of DESIGN.md 2.2 (no integer / // %, no comparisons on nullable operands)",
        "sum/count-like results over possibly-empty or all-null groups are compared zero/null tolerantly and never feed later steps",
        "final order_rows keys are non-null columns (NULL placement is engine specific)",
    ]
    ctx.probe_findings(replay)
    cfg = dict(BASE_CFG)
    cfg["closed"] = set(ctx.closed)
    ctx.campaign("main", gen.programs(cfg), make_oracle(ctx), max_examples=ctx.n(900, 40000))
