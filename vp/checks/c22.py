"""C22 — schema-check decorator (data_algebra.data_schema.SchemaRaises) raises exactly on schema violations.

A case is plain data: a function signature (1-3 parameters, positional-only / normal / keyword-only, all with a
sentinel default), a specification (per parameter: unchecked, a type name, an example value, a set of type names
and/or example values, or a dict of column specs; likewise for the return value), one call (each parameter passed
positionally, by keyword, or omitted; values are Python scalars, numpy scalars, None/NaN, Pandas or Polars frames,
lists/dicts), what the function returns (one of its arguments or a separately built object) and the global switch.

Reference model (written from the SchemaBase docstring, Examples/data_schema/README.md and schema_check.ipynb,
not from the checking code):

  * spec None = no constraint; a type = that type; a set = any of its members; anything that is not
    None/type/set/dict is an example value standing for its own type (alone or as a set member); a dict = "is a
    Pandas or Polars data frame with at least these columns", each column spec again None/type/example/set.
  * declared argument not passed -> violation.  dict spec and value is not a frame -> violation.  declared column
    absent -> violation; extra columns are fine.  Every non-null cell of a declared column must have one of the
    declared types; null cells (None, NaN, pd.NA) have no type; empty frames / all-null columns cannot fail.
  * return value is checked against return_spec the same way.
  * verdicts are three-valued.  "ok": the value's exact type is declared.  "bad": the value is no instance of any
    declared type.  "unchecked": the documentation is silent -- (a) the value is an instance of a strict subclass of
    a declared type (bool for int, numpy.float64 for float, numpy.str_ for str); (b) a null passed directly as an
    argument / returned directly where a type or frame is declared (the "nulls have no type" sentence is given for
    frame cells only).  Unchecked cases accept either outcome, but still no foreign exception and an unchanged
    result.

Oracle: switch on: TypeError must be raised if some part is "bad", must not be raised if every part is "ok"
(either outcome if the worst part is "unchecked"); switch off: no exception at all; never an exception other than
TypeError; when the call returns, the returned object `is` the object the wrapped function returned.  The switch
state found before the case is restored afterwards (SchemaCheckSwitch().is_on()/on()/off()).

Generator regions that can be closed by open findings (ctx.closed) or, for development, by the environment
variable VERIF_C22_CLOSE=flag,flag:  "example_values_in_sets" (set members are then written as types),
"arg_specs_none" (SchemaRaises(None, ...) is then written as SchemaRaises({}, ...)).
"""

from __future__ import annotations

import os

from hypothesis import strategies as st

from ..common import Failure, HarnessError

PID = "C22"
SHARDABLE = True

FLAG_EX_IN_SET = "example_values_in_sets"
FLAG_SPECS_NONE = "arg_specs_none"

SCALAR_TYPES = ["int", "float", "str", "bool"]
NP_TYPES = ["np.int64", "np.float64", "np.bool_", "np.str_"]
TOP_TYPES = SCALAR_TYPES + NP_TYPES[:3] + ["pd.DataFrame", "pl.DataFrame", "list"]
CELL_TYPES = SCALAR_TYPES + ["np.int64", "np.float64"]
POOL = {"int": [0, 1, 7, -3], "float": [0.0, 1.5, -2.25], "str": ["a", "b", ""], "bool": [True, False]}
COLS = ["x", "y", "z"]


class _Omitted:
    """default of every parameter of the generated functions"""

    def __repr__(self):
        return "<omitted>"


OMIT = _Omitted()

_LIBS = {}


def libs():
    if not _LIBS:
        import numpy
        import pandas
        import polars

        _LIBS.update(np=numpy, pd=pandas, pl=polars)
        _LIBS["types"] = {
            "int": int,
            "float": float,
            "str": str,
            "bool": bool,
            "list": list,
            "np.int64": numpy.int64,
            "np.float64": numpy.float64,
            "np.bool_": numpy.bool_,
            "np.str_": numpy.str_,
            "pd.DataFrame": pandas.DataFrame,
            "pl.DataFrame": polars.DataFrame,
        }
    return _LIBS


# ---- building real objects from plain data -------------------------------------------------------


def is_null_obj(g) -> bool:
    """the harness' own notion of null (None, NaN, pd.NA, NaT), not the library's"""
    L = libs()
    if g is None or g is L["pd"].NA or g is L["pd"].NaT:
        return True
    return isinstance(g, float) and g != g


def _pd_series(c):
    pd = libs()["pd"]
    kind, vals, store = c["kind"], c["vals"], c["store"]
    nullv = None if c["nullrep"] == "none" else float("nan")
    has_null = any(x is None for x in vals)
    filled = [nullv if x is None else x for x in vals]
    if store == "object" or kind == "obj" or (kind == "int" and has_null):
        return pd.Series(filled, dtype=object)
    if kind == "int":
        return pd.Series(vals, dtype="int64")
    if kind == "float":
        return pd.Series([float("nan") if x is None else x for x in vals], dtype="float64")
    if kind == "bool":
        if not has_null:
            return pd.Series(vals, dtype="bool")
        # the nullable "boolean" dtype iterates as numpy.bool_ (like Int64/Float64): not generated
        return pd.Series(filled, dtype=object)
    if kind == "str":
        if store == "nullable":
            return pd.Series(vals, dtype="string")
        if len(vals) == 0 or all(x is None for x in vals):
            return pd.Series(filled, dtype=object)
        return pd.Series(filled)
    raise HarnessError(f"unknown column kind {kind!r}")


def _pl_series(c):
    pl = libs()["pl"]
    kind, vals, store = c["kind"], c["vals"], c["store"]
    nullv = None if c["nullrep"] == "none" else float("nan")
    if store == "object" or kind == "obj":
        return pl.Series(c["name"], [nullv if x is None else x for x in vals], dtype=pl.Object)
    if kind == "float":
        return pl.Series(c["name"], [nullv if x is None else x for x in vals], dtype=pl.Float64)
    dt = {"int": pl.Int64, "str": pl.String, "bool": pl.Boolean}[kind]
    return pl.Series(c["name"], vals, dtype=dt)


def build_frame(v):
    """Pandas/Polars frame from plain data; verifies that iterating a column hands back the case's scalars."""
    L = libs()
    if v["lib"] == "pandas":
        d = L["pd"].DataFrame({c["name"]: _pd_series(c) for c in v["cols"]})
    else:
        d = L["pl"].DataFrame([_pl_series(c) for c in v["cols"]])
    if list(d.columns) != [c["name"] for c in v["cols"]]:
        raise HarnessError(f"frame builder: columns {list(d.columns)!r} for {v!r}")
    for c in v["cols"]:
        got = list(d[c["name"]])
        if len(got) != len(c["vals"]):
            raise HarnessError(f"frame builder: length of {c!r}")
        for x, g in zip(c["vals"], got):
            if x is None:
                if not is_null_obj(g):
                    raise HarnessError(f"frame builder: null became {g!r} in {c!r}")
            elif type(g) is not type(x) or g != x:
                raise HarnessError(f"frame builder: {x!r} became {g!r} ({type(g).__name__}) in {c!r} ({v['lib']})")
    return d


def build_value(v):
    L = libs()
    k = v["k"]
    if k == "py":
        return v["v"]
    if k == "none":
        return None
    if k == "nan":
        return float("nan")
    if k == "np":
        return L["types"]["np." + v["t"]](v["v"])
    if k == "other":
        return [1, 2] if v["t"] == "list" else {"x": [5]}
    if k == "frame":
        return build_frame(v)
    raise HarnessError(f"unknown value kind {v!r}")


def build_spec(s):
    """the Python specification object a user would write"""
    if s is None:
        return None
    k = s["s"]
    if k == "type":
        return libs()["types"][s["t"]]
    if k == "ex":
        return build_value(s["v"])
    if k == "set":
        return {build_spec(i) for i in s["items"]}
    if k == "cols":
        return {name: build_spec(cs) for name, cs in s["cols"].items()}
    raise HarnessError(f"unknown spec kind {s!r}")


# ---- reference model -------------------------------------------------------------------------------

OK, AMB, BAD = "ok", "unchecked", "bad"


def declared(pyspec):
    """None | ('types', set of types) | ('cols', dict) from the specification as written by the user"""
    if pyspec is None:
        return None
    if isinstance(pyspec, type):
        return ("types", {pyspec})
    if isinstance(pyspec, (set, frozenset)):
        return ("types", {m if isinstance(m, type) else type(m) for m in pyspec})
    if isinstance(pyspec, dict):
        return ("cols", pyspec)
    return ("types", {type(pyspec)})


def _tname(t):
    return t.__name__ if t.__module__ == "builtins" else f"{t.__module__.split('.')[0]}.{t.__name__}"


def _tnames(types):
    return sorted(_tname(t) for t in types)


def type_verdict(types, t):
    if t in types:
        return OK
    if any(issubclass(t, d) for d in types):
        return AMB
    return BAD


def value_verdict(pyspec, enc, obj, where, reasons):
    """verdict for one argument / return value. enc: plain-data description, obj: the built object"""
    dec = declared(pyspec)
    if dec is None:
        return OK
    null = enc["k"] in ("none", "nan")
    if dec[0] == "types":
        v = type_verdict(dec[1], type(obj))
        if null and v != OK:
            v = AMB
        if v != OK:
            reasons.append(f"[{'null_value' if null else 'value_type'}:{v}] {where}: {_tname(type(obj))} vs {_tnames(dec[1])} -> {v}")
        return v
    if enc["k"] != "frame":
        v = AMB if null else BAD
        reasons.append(f"[{'null_value' if null else 'not_a_frame'}:{v}] {where}: frame expected, had {type(obj).__name__} -> {v}")
        return v
    present = {c["name"]: c for c in enc["cols"]}
    worst = OK
    for name, cspec in dec[1].items():
        if name not in present:
            reasons.append(f"[missing_column:bad] {where}: column {name!r} missing -> bad")
            worst = BAD
            continue
        cdec = declared(cspec)
        if cdec is None:
            continue
        if cdec[0] != "types":
            raise HarnessError("nested column dict specs are not generated")
        cells = [(x, type_verdict(cdec[1], type(x))) for x in present[name]["vals"] if x is not None]
        cv = combine([v for _, v in cells])
        if cv != OK:
            pos = [v for _, v in cells].index(cv)
            tag = "cell_type" if pos == 0 or cv != BAD else "cell_type_after_good"
            tn = _tnames(cdec[1])
            reasons.append(f"[{tag}:{cv}] {where}.{name}: cell {cells[pos][0]!r} vs {tn} -> {cv}")
            worst = combine([worst, cv])
    return worst


def combine(vs):
    if BAD in vs:
        return BAD
    if AMB in vs:
        return AMB
    return OK


# ---- one case -----------------------------------------------------------------------------------------


def make_fn(params, box):
    po = [n for n, k in params if k == "po"]
    pk = [n for n, k in params if k == "pk"]
    ko = [n for n, k in params if k == "ko"]
    parts = [f"{n}=_OMIT" for n in po]
    if po:
        parts.append("/")
    parts += [f"{n}=_OMIT" for n in pk]
    if ko:
        parts.append("*")
        parts += [f"{n}=_OMIT" for n in ko]
    names = [n for n, _ in params]
    src = (
        f"def fn({', '.join(parts)}):\n"
        f"    '''generated'''\n"
        f"    return _ret({{{', '.join(repr(n) + ': ' + n for n in names)}}})\n"
    )

    def _ret(received):
        box["calls"] += 1
        box["received"] = received
        r = box["pick"](received)
        box["returned"] = r
        box["has_returned"] = True
        return r

    env = {"_OMIT": OMIT, "_ret": _ret}
    exec(src, env)  # deterministic text built from the case
    return env["fn"]


def spec_walk(s):
    """yield every spec node"""
    if s is None:
        return
    yield s
    if s["s"] == "set":
        for i in s["items"]:
            yield i
    elif s["s"] == "cols":
        for cs in s["cols"].values():
            for x in spec_walk(cs):
                yield x


def all_specs(case):
    out = []
    for s in list((case["arg_specs"] or {}).values()) + [case["return_spec"]]:
        out.extend(spec_walk(s))
    return out


def has_ex_in_set(case) -> bool:
    return any(s["s"] == "set" and any(i["s"] == "ex" for i in s["items"]) for s in all_specs(case))


def evaluate(case):
    """Run one case. Returns (Failure | None, info)."""
    from data_algebra.data_schema import SchemaCheckSwitch, SchemaRaises

    info = {"features": [], "verdict": None}
    feats = info["features"]
    params = [tuple(p) for p in case["params"]]
    call = {n: (how, enc) for n, how, enc in case["call"]}
    built = {n: build_value(enc) for n, (how, enc) in call.items() if how != "omit"}
    arg_specs_py = None if case["arg_specs"] is None else {n: build_spec(s) for n, s in case["arg_specs"].items()}
    return_spec_py = build_spec(case["return_spec"])
    ret = case["ret"]
    if ret["mode"] == "arg":
        ret_enc = call[ret["name"]][1] if ret["name"] in built else {"k": "omitted"}
        pick = lambda received: received[ret["name"]]  # noqa: E731
    else:
        ret_enc = ret["v"]
        ret_obj_fixed = build_value(ret["v"])
        pick = lambda received: ret_obj_fixed  # noqa: E731
    ret_obj = built.get(ret["name"], OMIT) if ret["mode"] == "arg" else ret_obj_fixed

    # reference verdict
    reasons = []
    verdicts = []
    for n, s in (arg_specs_py or {}).items():
        if n not in built:
            verdicts.append(BAD)
            reasons.append(f"[missing_arg:bad] arg {n}: declared but not passed -> bad")
        else:
            verdicts.append(value_verdict(s, call[n][1], built[n], f"arg {n}", reasons))
    args_verdict = combine(verdicts)
    ret_verdict = value_verdict(return_spec_py, ret_enc, ret_obj, "return", reasons)
    verdict = combine([args_verdict, ret_verdict])
    on = case["switch"] == "on"
    info["verdict"] = verdict if on else "off"
    feats.append("switch_" + case["switch"])
    feats.append("model_" + verdict)
    feats.extend(sorted({"why_" + r[1 : r.index("]")].replace(":", "_") for r in reasons}))
    if on and args_verdict == BAD:
        feats.append("bad_args")
    if on and args_verdict != BAD and ret_verdict == BAD:
        feats.append("bad_return_only")

    sig = {
        "switch": case["switch"],
        "ex_in_set": has_ex_in_set(case),
        "arg_specs_none": case["arg_specs"] is None,
    }
    sw = SchemaCheckSwitch()
    prev = sw.is_on()
    box = {"calls": 0, "pick": pick, "has_returned": False, "returned": None}
    exc = None
    out = None
    try:
        # the switch state while the function is being decorated is part of the history: only the state at CALL time counts
        dec_on = on if case.get("decorate_switch", "same") == "same" else case["decorate_switch"] == "on"
        if dec_on != on:
            feats.append("decorated_" + ("on" if dec_on else "off") + "_called_" + case["switch"])
        if dec_on:
            sw.on()
        else:
            sw.off()
        try:
            wrapped = SchemaRaises(arg_specs_py, return_spec=return_spec_py)(make_fn(params, box))
        except Exception as e:  # noqa: BLE001
            sig.update(kind="decorator_raised", exc=type(e).__name__)
            return Failure(f"building the decorator raised {type(e).__name__}: {e}", sig, {"case": case}), info
        if on:
            sw.on()
        else:
            sw.off()
        args = [built[n] for n, _ in params if call[n][0] == "pos"]
        kwargs = {n: built[n] for n, _ in params if call[n][0] == "kw"}
        try:
            out = wrapped(*args, **kwargs)
        except Exception as e:  # noqa: BLE001
            exc = e
    finally:
        if prev:
            sw.on()
        else:
            sw.off()
    detail = {"model": verdict, "reasons": reasons, "raised": None if exc is None else f"{type(exc).__name__}: {exc}"[:600]}
    if exc is not None and not isinstance(exc, TypeError):
        sig.update(kind="other_exception", exc=type(exc).__name__)
        return Failure(f"checker raised {type(exc).__name__} ({exc}) instead of TypeError/nothing", sig, detail), info
    if not on:
        if exc is not None:
            sig.update(kind="raised_when_off")
            return Failure(f"checking switched off but the call raised TypeError: {exc}", sig, detail), info
    elif exc is not None and verdict == OK:
        sig.update(kind="spurious_typeerror")
        msg = str(exc).replace("\n", " ")[:300]
        return Failure(f"TypeError although every declared argument/column is present and well typed: {msg}", sig, detail), info
    elif exc is None and verdict == BAD:
        sig.update(kind="missing_typeerror")
        return Failure(f"no TypeError although the schema is violated: {'; '.join(reasons)[:400]}", sig, detail), info
    if exc is None:
        feats.append("returned")
        if not box["has_returned"] or out is not box["returned"]:
            sig.update(kind="result_changed")
            return Failure("the call returned something other than the wrapped function's own result object", sig, detail), info
    else:
        feats.append("raised_TypeError")
    return None, info


def case_features(case):
    f = set()
    for n, how, enc in case["call"]:
        f.add("pass_" + how)
        if enc is not None:
            f.add("val_" + enc["k"] + ("_" + enc["lib"] if enc["k"] == "frame" else ""))
    for _, k in case["params"]:
        f.add("param_" + k)
    encs = [enc for _, _, enc in case["call"] if enc is not None]
    if case["ret"]["mode"] == "val":
        encs.append(case["ret"]["v"])
    for s in all_specs(case):
        if s["s"] == "ex":
            encs.append(s["v"])
    for enc in encs:
        if enc["k"] == "frame":
            if not enc["cols"] or not enc["cols"][0]["vals"]:
                f.add("frame_empty")
            for c in enc["cols"]:
                if any(x is None for x in c["vals"]):
                    f.add("frame_null_cell")
                if c["vals"] and all(x is None for x in c["vals"]):
                    f.add("frame_all_null_col")
                f.add("col_" + c["kind"] + "_" + c["store"])
    for s in all_specs(case):
        f.add("spec_" + s["s"])
        if s["s"] == "set":
            if not s["items"]:
                f.add("spec_empty_set")
            if any(i["s"] == "ex" for i in s["items"]):
                f.add("spec_ex_in_set")
    if case["arg_specs"] is None:
        f.add("arg_specs_none")
    if case["return_spec"] is not None:
        f.add("return_spec")
    f.add("ret_" + case["ret"]["mode"])
    return sorted(f)


def nontrivial(case, info) -> bool:
    rich = any(s["s"] in ("set", "ex", "cols") for s in all_specs(case))
    return rich and info["verdict"] != AMB


def replay(check, case):
    f, _ = evaluate(case)
    return f


# ---- strategies -----------------------------------------------------------------------------------------


def _scalar(draw, kind):
    return draw(st.sampled_from(POOL[kind]))


def _value_of_type(draw, tname):
    if tname in SCALAR_TYPES:
        return {"k": "py", "v": _scalar(draw, tname)}
    if tname.startswith("np."):
        base = {"np.int64": "int", "np.float64": "float", "np.bool_": "bool", "np.str_": "str"}[tname]
        return {"k": "np", "t": tname[3:], "v": _scalar(draw, base)}
    if tname == "pd.DataFrame":
        return _frame(draw, None, "pandas")
    if tname == "pl.DataFrame":
        return _frame(draw, None, "polars")
    return {"k": "other", "t": "list"}


def _enc_type_name(enc):
    if enc["k"] == "py":
        return type(enc["v"]).__name__
    if enc["k"] == "np":
        return "np." + enc["t"]
    if enc["k"] == "frame":
        return "pd.DataFrame" if enc["lib"] == "pandas" else "pl.DataFrame"
    return None


def _declared_names(spec):
    """type names a value could be drawn from to satisfy an atom/set spec"""
    if spec is None:
        return []
    if spec["s"] == "type":
        return [spec["t"]]
    if spec["s"] == "ex":
        n = _enc_type_name(spec["v"])
        return [n] if n else []
    if spec["s"] == "set":
        out = []
        for i in spec["items"]:
            out += _declared_names(i)
        return out
    return []


def _column(draw, name, nrows, cspec):
    kinds = ["int", "float", "str", "bool", "obj"]
    want = [n for n in _declared_names(cspec) if n in SCALAR_TYPES]
    r = draw(st.integers(0, 9))
    cell_kinds = SCALAR_TYPES
    if want and r < 5:
        kind = draw(st.sampled_from(want))
    elif want and r < 8:
        kind = "obj"  # mixed column: declared types, plus (below) one cell of another type after the first row
        cell_kinds = want
    else:
        kind = draw(st.sampled_from(kinds))
    vals = []
    for _ in range(nrows):
        if draw(st.integers(0, 3)) == 0:
            vals.append(None)
        else:
            k = kind if kind != "obj" else draw(st.sampled_from(cell_kinds))
            vals.append(_scalar(draw, k))
    others = [k for k in SCALAR_TYPES if k not in want]
    if cell_kinds is want and nrows >= 2 and others and draw(st.integers(0, 3)) > 0:
        vals[draw(st.integers(1, nrows - 1))] = _scalar(draw, draw(st.sampled_from(others)))
    if cell_kinds is want and nrows >= 2 and draw(st.sampled_from(range(4))) in (1, 2):
        # an "equal twin": a wrongly typed cell that is == (and hashes like) an earlier conforming cell of the column
        # (1 / 1.0 / True): whatever de-duplicates or caches by value must still look at its type
        twins = {"int": [1.0, True], "float": [1, True], "bool": [1, 1.0]}
        for j0 in range(nrows - 1):
            v0 = vals[j0]
            kind0 = type(v0).__name__
            if v0 is not None and kind0 in twins and v0 == 1:
                cand = [t for t in twins[kind0] if type(t).__name__ not in want]
                if cand:
                    vals[draw(st.integers(j0 + 1, nrows - 1))] = draw(st.sampled_from(cand))
                break
        else:
            first = next((k for k in ("int", "float", "bool") if k in want), None)
            if first is not None:
                conform = {"int": 1, "float": 1.0, "bool": True}[first]
                cand = [t for t in twins[first] if type(t).__name__ not in want]
                if cand:
                    vals[0] = conform
                    vals[draw(st.integers(1, nrows - 1))] = draw(st.sampled_from(cand))
    return {
        "name": name,
        "kind": kind,
        "vals": vals,
        "store": draw(st.sampled_from(["native", "native", "object", "nullable"])),
        "nullrep": draw(st.sampled_from(["none", "nan"])),
    }


def _frame(draw, colspecs, lib=None):
    if lib is None:
        lib = draw(st.sampled_from(["pandas", "polars"]))
    nrows = draw(st.sampled_from([2, 1, 3, 0, 2, 4, 1, 3]))
    cols = []
    for name in COLS:
        decl = colspecs is not None and name in colspecs
        if draw(st.integers(0, 99)) < (92 if decl else 35):
            cols.append(_column(draw, name, nrows, colspecs[name] if decl else None))
    return {"k": "frame", "lib": lib, "cols": cols}


def _any_value(draw):
    r = draw(st.integers(0, 11))
    if r < 5:
        return _value_of_type(draw, draw(st.sampled_from(SCALAR_TYPES)))
    if r < 7:
        return _value_of_type(draw, draw(st.sampled_from(NP_TYPES)))
    if r == 7:
        return {"k": "none"}
    if r == 8:
        return {"k": "nan"}
    if r < 11:
        return _frame(draw, None)
    return {"k": "other", "t": draw(st.sampled_from(["list", "dict"]))}


def _value_for(draw, spec):
    r = draw(st.integers(0, 9))
    if spec is not None and spec["s"] == "cols":
        if r < 8:
            return _frame(draw, spec["cols"])
        return _any_value(draw)
    names = _declared_names(spec)
    if names and r < 8:
        return _value_of_type(draw, draw(st.sampled_from(names)))
    return _any_value(draw)


def _atom(draw, level, hashable):
    types = TOP_TYPES if level == "top" else CELL_TYPES
    r = draw(st.integers(0, 9))
    if r < 6:
        return {"s": "type", "t": draw(st.sampled_from(types))}
    if r < 9 or level != "top":
        return {"s": "ex", "v": _value_of_type(draw, draw(st.sampled_from(SCALAR_TYPES)))}
    if hashable or draw(st.booleans()):
        return {"s": "ex", "v": _value_of_type(draw, draw(st.sampled_from(NP_TYPES[:3])))}
    return {"s": "ex", "v": _frame(draw, None)}  # an example frame declares its frame class


def _spec(draw, level, closed, excl):
    r = draw(st.integers(0, 11))
    if r == 0:
        return None
    if r < 5:
        return _atom(draw, level, False)
    if r < 9 or level != "top":
        items = [_atom(draw, level, True) for _ in range(draw(st.sampled_from([1, 2, 1, 2, 3, 1, 2, 3, 2, 1, 0])))]
        if FLAG_EX_IN_SET in closed:
            for j, it in enumerate(items):
                if it["s"] == "ex":
                    items[j] = {"s": "type", "t": _enc_type_name(it["v"])}
                    excl[0] += 1
        return {"s": "set", "items": items}
    names = [n for n in COLS if draw(st.integers(0, 9)) < 5]
    return {"s": "cols", "cols": {n: _spec(draw, "col", closed, excl) for n in names}}


PARAM_STYLES = {
    1: [["pk"], ["po"], ["ko"]],
    2: [["pk", "pk"], ["po", "pk"], ["pk", "ko"], ["po", "ko"], ["ko", "ko"], ["po", "po"]],
    3: [["pk", "pk", "pk"], ["po", "pk", "ko"], ["po", "po", "pk"], ["pk", "ko", "ko"], ["po", "pk", "pk"]],
}


def cases(closed=frozenset()):
    closed = frozenset(closed)

    @st.composite
    def _case(draw):
        excl = [0]
        n = draw(st.sampled_from([1, 2, 2, 3, 3]))
        kinds = draw(st.sampled_from(PARAM_STYLES[n]))
        params = [[name, k] for name, k in zip(["a", "b", "c"], kinds)]
        if draw(st.integers(0, 14)) == 0:
            if FLAG_SPECS_NONE in closed:
                arg_specs = {}
                excl[0] += 1
            else:
                arg_specs = None
        else:
            arg_specs = {}
            for name, _ in params:
                if draw(st.integers(0, 9)) < 7:
                    arg_specs[name] = _spec(draw, "top", closed, excl)
        return_spec = _spec(draw, "top", closed, excl) if draw(st.integers(0, 9)) < 5 else None
        call = []
        can_pos = True
        for name, k in params:
            hows = []
            if k != "ko" and can_pos:
                hows += ["pos"] * 6
            if k != "po":
                hows += ["kw"] * 6
            hows.append("omit")  # a positional-only parameter after a gap can only be omitted
            how = draw(st.sampled_from(hows))
            if how != "pos":
                can_pos = False
            enc = None if how == "omit" else _value_for(draw, (arg_specs or {}).get(name))
            call.append([name, how, enc])
        passed = [nm for nm, how, _ in call if how != "omit"]
        if passed and draw(st.booleans()):
            ret = {"mode": "arg", "name": draw(st.sampled_from(passed))}
        else:
            ret = {"mode": "val", "v": _value_for(draw, return_spec)}
        case = {
            "params": params,
            "arg_specs": arg_specs,
            "return_spec": return_spec,
            "call": call,
            "ret": ret,
            "switch": draw(st.sampled_from(["on", "on", "on", "on", "off"])),
            "decorate_switch": draw(st.sampled_from(["same", "same", "same", "on", "off", "off"])),
        }
        if excl[0]:
            case["excluded_by_construction"] = excl[0]
        return case

    return _case()


# ---- run --------------------------------------------------------------------------------------------------


def run(ctx):
    ev = ctx.ev
    ev.rule = (
        "one case = generated function (1-3 parameters: positional-only/normal/keyword-only, all defaulted) + "
        "specification (per parameter and for the return value: unchecked, type, example value, set of types and/or "
        "example values incl. the empty set, or dict of column specs) + one call (each parameter positional / keyword / "
        "omitted; values drawn to match the spec ~80% of the time, else arbitrary: Python and numpy scalars, None, NaN, "
        "Pandas and Polars frames with missing/extra/wrong-typed/null/all-null/empty columns in native, object and "
        "nullable storage, lists, dicts) + what the function returns + switch on (80%) / off. Compared with an "
        "independent three-valued reference model of the documented contract. non-trivial = some argument or return "
        "specification contains a set, an example value or a column dict AND the model verdict is definite "
        "(ok or bad, not 'unchecked'). distinct = SHA-1 of the case."
    )
    ev.assumptions = [
        "a value whose type is a strict subclass of a declared type (bool for int, numpy.float64 for float, numpy.str_ "
        "for str) is not judged: documentation does not say whether 'has a declared type' means isinstance or exact type",
        "a null (None/NaN) passed directly as an argument or returned directly where a type or a frame is declared is not "
        "judged unless its own type is declared: the 'nulls have no type' rule is documented for frame cells only "
        "(the implementation raises TypeError there)",
        "None as a member of a type set, sets nested in sets, dicts as column specs, and specification names that are not "
        "parameters of the function are not generated (undocumented)",
        "calls are valid Python calls of the wrapped function (no surplus positional/unknown keyword arguments); the "
        "wrapped function never raises and never mutates its arguments",
        "only object identity of the result is checked ('unchanged'), not that the checker leaves frame contents untouched",
        "frame cells are Python int/float/str/bool or null (None, NaN, pd.NA); the frame builder verifies that iterating "
        "a column returns exactly those objects; Pandas nullable Int64/Float64 (numpy cell types) are not generated",
        "the text of the TypeError is not checked, only its class",
        "SchemaMock is not exercised",
    ]
    ev.trusted_base = ["pandas/polars frame construction and column iteration (self-checked per frame)"]
    ctx.probe_findings(replay)
    # development aid: VERIF_C22_CLOSE=flag1,flag2 closes generator regions without a findings entry
    closed = set(ctx.closed) | {x for x in os.environ.get("VERIF_C22_CLOSE", "").split(",") if x}

    def oracle(case):
        f, info = evaluate(case)
        ev.note(case, nontrivial(case, info), case_features(case) + info["features"])
        if info["verdict"] == AMB:
            ev.count("unchecked_by_model")
        if case.get("excluded_by_construction"):
            ev.count("excluded_by_construction", case["excluded_by_construction"])
        return f

    ctx.campaign("main", cases(closed), oracle, max_examples=ctx.n(3000, 800000))
