"""C18 — results ignore input row order; order_rows orders and limits (metamorphic + validity predicate).

(a) For each generated program (window orderings total within partitions by construction) the input rows are
    permuted and, on Pandas, the frames get non-default indexes (shuffled ints, string labels, duplicate labels,
    descending range): the result must be unchanged as a multiset on Pandas, Polars (when it returns) and SQLite.
(b) When the program ends in order_rows, every engine's output must be sorted by the given columns with the given
    reversals (NULL placement is not judged); with a limit the output must have min(limit, n) rows, be a sub-multiset
    of the un-limited result, and no excluded row may sort strictly before an included one.
"""

from __future__ import annotations

from hypothesis import strategies as st

from .. import cmp, engines, gen, schema, spec
from ..common import Failure
from . import c01

PID = "C18"

BASE_CFG = {
    "engines": ("pandas", "sqlite"),
    "max_nodes": 7,
    "n_tables": (1, 2),
    "final_order": 0.6,
    "ops": {"ordered_window": 5, "window": 4, "natural_join": 4, "order_rows": 6},
    "null_order_cols": 0.8,
    "block_table_prob": 0.25,
    "drop_order_col_prob": 0.7,
}

INDEX_KINDS = ["default", "shuffled_int", "str_labels", "duplicate_labels", "descending", "range_offset", "range_step"]


def permuted_case(case, perms):
    c = spec.clone(case)
    for tn, p in perms.items():
        rows = c["tables"][tn]["rows"]
        if len(p) == len(rows):
            c["tables"][tn]["rows"] = [rows[i] for i in p]
    return c


def reindex(frames, kinds):
    out = {}
    for tn, df in frames.items():
        k = kinds.get(tn, "default")
        n = df.shape[0]
        df = df.copy()
        if k == "shuffled_int":
            df.index = [(i * 7 + 3) % max(n, 1) + 100 for i in range(n)] if n else df.index
        elif k == "str_labels":
            df.index = [f"r{(i * 5) % max(n, 1)}" for i in range(n)]
        elif k == "duplicate_labels":
            df.index = [i // 2 for i in range(n)]
        elif k == "descending":
            df.index = list(range(n, 0, -1))
        elif k == "range_offset":
            import pandas

            df.index = pandas.RangeIndex(10, 10 + n)  # what d.iloc[10:] / d.tail(k) carry
        elif k == "range_step":
            import pandas

            df.index = pandas.RangeIndex(0, 2 * n, 2)  # what d.iloc[::2] carries
        out[tn] = df
    return out


def strip_final_limit(case):
    nd = case["nodes"][case["root"]]
    if nd["op"] == "order_rows" and nd.get("limit") is not None:
        c = spec.clone(case)
        c["nodes"][c["root"]]["limit"] = None
        return c
    return None


def row_lt(cols, a, b, order_cols, reverse):
    """True if row a sorts strictly before row b (rows with NULL in a compared column are incomparable)."""
    for c in order_cols:
        j = cols.index(c)
        x, y = a[j], b[j]
        if x is None or y is None:
            return False
        if isinstance(x, float) and isinstance(y, float) and cmp.cell_eq(x, y):
            continue
        if x == y:
            continue
        lt = x < y
        if c in reverse:
            lt = not lt
        return lt
    return False


def run_engines(case, frames=None):
    """{engine: normalised result or EngineError}"""
    ops = spec.build(case)
    names = spec.used_tables(case)
    pt = spec.pandas_tables(case, names)
    res = {}
    try:
        res["pandas"] = engines.run_pandas(ops, frames if frames is not None else pt)
    except engines.EngineError as e:
        res["pandas"] = e
    try:
        res["polars"] = engines.run_polars(ops, spec.polars_tables(case, names), lazy=False)
    except engines.EngineError as e:
        res["polars"] = e
    eng = engines.SQLiteEngine("sqlite")
    try:
        eng.load(pt)
        try:
            res["sqlite"] = eng.run(ops)
        except engines.EngineError as e:
            res["sqlite"] = e
    finally:
        eng.close()
    return res


def check(wrapped):
    case = wrapped["case"]
    info = {}
    try:
        spec.build(case)
    except Exception as e:
        info["builder_rejected"] = str(e)
        return None, info
    names = spec.used_tables(case)
    perms = {tn: wrapped["perms"].get(tn, []) for tn in names}
    perms = {tn: [i for i in p if i < len(case["tables"][tn]["rows"])] for tn, p in perms.items()}
    for tn in names:  # complete partial permutations deterministically
        n = len(case["tables"][tn]["rows"])
        p = perms[tn]
        seen = set(p)
        perms[tn] = p + [i for i in range(n) if i not in seen]
    info["identity"] = all(p == sorted(p) for p in perms.values())
    base = run_engines(case)
    pc = permuted_case(case, perms)
    frames = reindex(spec.pandas_tables(pc, names), wrapped.get("index", {}))
    perm = run_engines(pc, frames=frames)
    root = case["nodes"][case["root"]]
    ordered_by = c01.final_order_cols(case)
    for engine in ("pandas", "polars", "sqlite"):
        a, b = base[engine], perm[engine]
        if isinstance(a, engines.EngineError) or isinstance(b, engines.EngineError):
            if isinstance(a, engines.EngineError) != isinstance(b, engines.EngineError):
                if engine == "polars":
                    info["polars_raise_depends_on_order"] = True
                    continue
                which = "permuted/re-indexed" if isinstance(b, engines.EngineError) else "original"
                err = b if isinstance(b, engines.EngineError) else a
                return (
                    Failure(
                        f"{engine} raises only on the {which} input: {err}",
                        {"kind": "raise_depends_on_order", "engine": engine},
                    ),
                    info,
                )
            info["raised_" + engine] = True
            continue
        d = cmp.compare(a, b, ordered_by=None)
        if d is not None:
            return (
                Failure(
                    f"{engine} result changed under row permutation / re-indexing {wrapped.get('index')}: {d}",
                    {"kind": "permutation_changes", "engine": engine},
                    {"original": cmp.brief(a), "permuted": cmp.brief(b)},
                ),
                info,
            )
        info["compared_" + engine] = True
        # (b) order validity of a final order_rows
        if root["op"] == "order_rows":
            for label, r in (("original", a), ("permuted", b)):
                v = cmp.order_violation(r[0], r[1], root["cols"], root.get("reverse") or [])
                if v is not None:
                    return (
                        Failure(
                            f"{engine} output ({label} input) is not sorted as order_rows({root['cols']}, reverse={root.get('reverse')}) demands: {v}",
                            {"kind": "not_sorted", "engine": engine},
                            {"result": cmp.brief(r, 10)},
                        ),
                        info,
                    )
            info["order_checked"] = True
    # limit semantics against the un-limited program
    unl = strip_final_limit(case)
    if unl is not None:
        full = run_engines(unl)
        lim = root["limit"]
        for engine in ("pandas", "polars", "sqlite"):
            a, f_ = base[engine], full[engine]
            if isinstance(a, engines.EngineError) or isinstance(f_, engines.EngineError):
                continue
            cols = a[0]
            fr = cmp.align(cols, a[1], f_[0], f_[1])
            if fr is None:
                continue
            want = min(lim, len(fr))
            if len(a[1]) != want:
                return (
                    Failure(
                        f"{engine}: order_rows(limit={lim}) returned {len(a[1])} rows, expected {want} of {len(fr)}",
                        {"kind": "limit_count", "engine": engine},
                    ),
                    info,
                )
            rest = list(fr)
            for r in a[1]:
                hit = next((k for k, x in enumerate(rest) if cmp.row_eq(r, x)), None)
                if hit is None:
                    return (
                        Failure(f"{engine}: limited output row {r} is not a row of the un-limited result", {"kind": "limit_invents", "engine": engine}),
                        info,
                    )
                rest.pop(hit)
            for ex in rest:
                for inc in a[1]:
                    if row_lt(cols, ex, inc, root["cols"], set(root.get("reverse") or [])):
                        return (
                            Failure(
                                f"{engine}: limit={lim} kept row {inc} although excluded row {ex} sorts strictly before it",
                                {"kind": "limit_not_prefix", "engine": engine},
                            ),
                            info,
                        )
            # "exactly the first `limit` rows of that order": the un-limited program ends in the same order_rows, so
            # its output on this engine IS that order (wherever the engine puts NULLs); the limited output must carry
            # the same order-key sequence as its first `limit` rows.
            ki = [cols.index(c) for c in root["cols"]]
            got_keys = [[r[j] for j in ki] for r in a[1]]
            want_keys = [[r[j] for j in ki] for r in fr[:want]]
            for pos, (gk, wk) in enumerate(zip(got_keys, want_keys)):
                if not cmp.row_eq(gk, wk):
                    return (
                        Failure(
                            f"{engine}: with limit={lim} row {pos} has order key {gk}, but row {pos} of the same engine's un-limited ordered output has {wk}",
                            {"kind": "limit_not_first_rows", "engine": engine, "null_in_key": any(v is None for v in gk + wk)},
                            {"limited": cmp.brief(a, 10), "unlimited": cmp.brief(f_, 10)},
                        ),
                        info,
                    )
            info["limit_checked"] = True
    return None, info


def replay(check_name, wrapped):
    f, _ = check(wrapped)
    return f


def wrapped_cases(cfg):
    return st.fixed_dictionaries(
        {
            "case": gen.programs(cfg),
            "perms": st.fixed_dictionaries({tn: st.permutations(list(range(8))) for tn in ("t1", "t2")}),
            "index": st.fixed_dictionaries({tn: st.sampled_from(INDEX_KINDS) for tn in ("t1", "t2")}),
        }
    )


def run(ctx):
    ev = ctx.ev
    ev.rule = (
        "random operator DAGs with totalised window orders (vp.gen.programs) x a random permutation of each input table x a non-default "
        "Pandas index kind (shuffled ints / string labels / duplicate labels / descending); Pandas, Polars (eager) and SQLite each compared "
        "with their own result on the original input; final order_rows checked with a sortedness predicate and, with limit, a prefix-validity "
        "predicate against the un-limited program; non-trivial = program contains a windowed extend, a join or an order/limit AND the "
        "permutation is not the identity; distinct = SHA-1 of (case, permutation, index kinds)"
    )
    ev.assumptions = [
        "NULL placement inside an ordering is engine specific and not judged (a NULL compares as unordered)",
        "final order_rows keys with limit form a total order by construction, so 'the first limit rows' is well defined",
        "Polars is compared only when it returns on both inputs",
    ]
    ctx.probe_findings(replay)
    cfg = dict(BASE_CFG)
    cfg["closed"] = set(ctx.closed)

    def oracle(w):
        f, info = check(w)
        fs = gen.features(w["case"])
        nt = (not info.get("identity", True)) and any(x in fs for x in ("window", "ordered_window", "join", "order_rows", "order_limit", "final_order"))
        extra = [k for k in ("order_checked", "limit_checked", "compared_polars") if info.get(k)]
        names = spec.used_tables(w["case"])
        extra += sorted({"index_" + w["index"][tn] for tn in names if tn in w["index"]})
        ev.note(w, nt, fs + extra, sample={"program": c01._sample(w["case"]), "index": w["index"], "perms": {k: v for k, v in w["perms"].items() if k in names}})
        for k in ("builder_rejected", "raised_pandas", "raised_sqlite", "raised_polars", "polars_raise_depends_on_order"):
            if info.get(k):
                ev.count(k)
        return f

    ctx.campaign("main", wrapped_cases(cfg), oracle, max_examples=ctx.n(1000, 32000))
