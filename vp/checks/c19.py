"""C19 — evaluation never modifies the caller's tables and is repeatable.

For each generated program and input (Pandas frames with non-default indexes and mixed dtypes; Polars frames) every
entry point — ops.eval(map), ops.transform(df), ex(data(df) ...), df >> ops, ops.act_on(df), DataOpArrow.transform —
must leave the caller's frames unchanged in values, dtypes, columns and index (deep snapshot before/after, plus
pandas.testing.assert_frame_equal as a second opinion), and a second evaluation must return an identical frame.
"""

from __future__ import annotations

import warnings

from hypothesis import strategies as st

from .. import cmp, engines, gen, schema, spec
from ..common import Failure
from . import c01, c18

PID = "C19"

BASE_CFG = {
    "engines": ("pandas", "polars"),
    "max_nodes": 6,
    "n_tables": (1, 2),
    "final_order": 0.2,
    "ops": {"window": 5, "ordered_window": 3, "project": 4, "natural_join": 7, "concat_rows": 3, "extend": 5},
    "force_cols": ["g"],
    "force_cols_nullable": True,
    "nullable_join_key_prob": 0.6,
    "null_rate": 0.35,
}


def snap_pandas(df):
    import pandas

    return {
        "columns": [str(c) for c in df.columns],
        "dtypes": [str(t) for t in df.dtypes],
        "index": [repr(i) for i in df.index.tolist()],
        "index_type": type(df.index).__name__,
        "index_name": repr(df.index.name),
        "values": [[repr(v) for v in df[c].tolist()] for c in df.columns],
    }


def snap_polars(df):
    return {"schema": [(k, str(v)) for k, v in df.schema.items()], "rows": [repr(r) for r in df.rows()]}


def frames_identical(a, b) -> bool:
    """Exact (not tolerant) equality of two result frames incl. NaN positions."""
    mod = type(a).__module__
    if mod.startswith("polars"):
        return a.schema == b.schema and a.equals(b)
    try:
        import pandas

        pandas.testing.assert_frame_equal(a, b, check_exact=True, check_dtype=True)
        return True
    except AssertionError:
        return False


def entry_points(ops, names, single):
    """[(label, callable(tables) -> result)]"""
    import data_algebra
    from data_algebra.arrow import DataOpArrow

    eps = [("eval", lambda T: ops.eval(T))]
    if single:
        tn = names[0]
        eps.append(("transform", lambda T: ops.transform(T[tn])))
        eps.append(("rshift", lambda T: T[tn] >> ops))
        eps.append(("act_on", lambda T: ops.act_on(T[tn])))
        eps.append(("arrow", lambda T: DataOpArrow(ops).transform(T[tn])))
    return eps


def check(wrapped):
    case = wrapped["case"]
    info = {}
    try:
        ops = spec.build(case)
    except Exception as e:
        info["builder_rejected"] = str(e)
        return None, info
    names = spec.used_tables(case)
    single = len(ops.get_tables()) == 1
    for engine in ("pandas", "polars"):
        for label, fn in entry_points(ops, names, single):
            if engine == "pandas":
                tables = c18.reindex(spec.pandas_tables(case, names), wrapped.get("index", {}))
                snap = snap_pandas
            else:
                tables = spec.polars_tables(case, names)
                snap = snap_polars
            before = {tn: snap(df) for tn, df in tables.items()}
            copies = {tn: (df.copy(deep=True) if engine == "pandas" else df.clone()) for tn, df in tables.items()}
            with warnings.catch_warnings():
                warnings.simplefilter("ignore")
                try:
                    r1 = fn(tables)
                except Exception as e:
                    info[f"raised_{engine}"] = type(e).__name__
                    r1 = None
            after = {tn: snap(df) for tn, df in tables.items()}
            for tn in tables:
                if before[tn] != after[tn]:
                    diff = [k for k in before[tn] if before[tn][k] != after[tn][k]]
                    return (
                        Failure(
                            f"{engine} {label}: input table {tn} was modified ({', '.join(diff)} changed)",
                            {"kind": "input_modified", "engine": engine, "entry": label, "what": diff[0]},
                            {"before": {k: before[tn][k] for k in diff}, "after": {k: after[tn][k] for k in diff}},
                        ),
                        info,
                    )
                if engine == "pandas":
                    import pandas

                    try:
                        pandas.testing.assert_frame_equal(tables[tn], copies[tn], check_exact=True, check_index_type=True)
                    except AssertionError as ae:
                        return (
                            Failure(
                                f"pandas {label}: input table {tn} differs from its copy after evaluation: {str(ae)[:200]}",
                                {"kind": "input_modified", "engine": engine, "entry": label, "what": "assert_frame_equal"},
                            ),
                            info,
                        )
            if r1 is None:
                continue
            with warnings.catch_warnings():
                warnings.simplefilter("ignore")
                try:
                    r2 = fn(tables)
                except Exception as e:
                    return (
                        Failure(
                            f"{engine} {label}: second evaluation on the same inputs raised {type(e).__name__}: {e}",
                            {"kind": "second_eval_raises", "engine": engine, "entry": label},
                        ),
                        info,
                    )
            if hasattr(r1, "collect") and not hasattr(r1, "rows"):
                r1, r2 = r1.collect(), r2.collect()
            # Row order of a relational result is only defined after a final order_rows (Polars group_by returns
            # groups in a run-dependent order): identical frames pass at once, otherwise compare as multisets
            # (key sequence after a final order_rows).
            if not frames_identical(r1, r2) and cmp.compare(
                cmp.normalise(r1), cmp.normalise(r2), ordered_by=c01.final_order_cols(case)
            ) is not None:
                return (
                    Failure(
                        f"{engine} {label}: evaluating twice on the same inputs gave different frames",
                        {"kind": "not_repeatable", "engine": engine, "entry": label},
                        {"first": cmp.brief(cmp.normalise(r1)), "second": cmp.brief(cmp.normalise(r2))},
                    ),
                    info,
                )
            info[f"checked_{engine}"] = info.get(f"checked_{engine}", 0) + 1
    # ex(): tables captured inside the pipeline
    if single:
        import data_algebra

        tn = names[0]
        df = c18.reindex(spec.pandas_tables(case, names), wrapped.get("index", {}))[tn]
        before = snap_pandas(df)
        try:
            captured = data_algebra.data(**{tn: df})
            full = ops.replace_leaves({tn: captured})
            with warnings.catch_warnings():
                warnings.simplefilter("ignore")
                data_algebra.ex(full)
            info["checked_ex"] = 1
        except Exception as e:
            info["ex_raised"] = type(e).__name__
        if snap_pandas(df) != before:
            return Failure("ex(): the captured input frame was modified", {"kind": "input_modified", "engine": "pandas", "entry": "ex"}), info
    return None, info


def replay(check_name, wrapped):
    f, _ = check(wrapped)
    return f


def wrapped_cases(cfg):
    return st.fixed_dictionaries(
        {"case": gen.programs(cfg), "index": st.fixed_dictionaries({tn: st.sampled_from(c18.INDEX_KINDS) for tn in ("t1", "t2")})}
    )


def run(ctx):
    ev = ctx.ev
    ev.rule = (
        "random operator DAGs (vp.gen.programs biased to windowed extends, projects, joins, concat with id column) on Pandas frames with "
        "non-default indexes and on Polars frames, through eval / transform / >> / act_on / DataOpArrow.transform / ex; deep snapshot of "
        "every input before and after, second evaluation compared exactly; non-trivial = program has a node kind whose executor writes into "
        "intermediate frames (windowed extend, project, join, concat); distinct = SHA-1 of (case, index kinds)"
    )
    ev.assumptions = [
        "pipelines never use _uniform() (the property excludes random numbers)",
        "an entry point that raises is not judged here (still checked: inputs unchanged after the exception)",
    ]
    ctx.probe_findings(replay)
    cfg = dict(BASE_CFG)
    cfg["closed"] = set(ctx.closed)

    def oracle(w):
        f, info = check(w)
        fs = gen.features(w["case"])
        nt = any(x in fs for x in ("window", "ordered_window", "project", "project_ungrouped", "join", "concat_rows")) and (
            info.get("checked_pandas", 0) + info.get("checked_polars", 0) > 0
        )
        ev.note(w, nt, fs, sample={"program": c01._sample(w["case"]), "index": w["index"]})
        ev.count("entry_point_runs", info.get("checked_pandas", 0) + info.get("checked_polars", 0) + info.get("checked_ex", 0))
        for k in ("builder_rejected", "raised_pandas", "raised_polars", "ex_raised"):
            if k in info:
                ev.count(k)
        return f

    ctx.campaign("main", wrapped_cases(cfg), oracle, max_examples=ctx.n(700, 48000))
