"""C03 — the Polars executor agrees with Pandas whenever it returns a result (differential).

Polars raising is allowed (bucketed and counted by exception type + innermost data_algebra frame); a returned
frame must have the same columns and the same multiset of rows as the Pandas result (key sequence after a final
order_rows). Eager and lazy evaluation are both run and must agree with each other as well.
"""

from __future__ import annotations

from hypothesis import strategies as st

from .. import cmp, engines, gen, schema, spec
from ..common import Failure
from . import c01

PID = "C03"

BASE_CFG = {
    "engines": ("pandas", "polars"),
    "max_nodes": 7,
    "n_tables": (1, 2),
    "final_order": 0.3,
    "block_table_prob": 0.2,
    # polars 1.44 has no Expr.cumsum/cummax/...: ordered windows mostly raise; keep them, but fewer
    "ops": {"ordered_window": 1, "natural_join": 7},
    "diffname_prob": 0.4,
    "extra_jointypes": ["full", "right"],
}


def differential(case, zn_override=None):
    info = {}
    try:
        ops = spec.build(case)
    except Exception as e:
        info["builder_rejected"] = str(e)
        return None, info
    names = spec.used_tables(case)
    zn = c01.zn_columns(case) if zn_override is None else zn_override
    ordered_by = c01.final_order_cols(case)
    try:
        p = engines.run_pandas(ops, spec.pandas_tables(case, names))
    except engines.EngineError as e:
        info["pandas_raised"] = e.bucket()
        return None, info
    res = {}
    for lazy in (False, True):
        label = "lazy" if lazy else "eager"
        try:
            res[label] = engines.run_polars(ops, spec.polars_tables(case, names), lazy=lazy)
        except engines.EngineError as e:
            info["polars_raised_" + label] = e.bucket()
            res[label] = None
    for label, q in res.items():
        if q is None:
            continue
        d = cmp.compare(p, q, ordered_by=ordered_by, zn_cols=zn)
        if d is not None:
            return (
                Failure(
                    f"Polars ({label}) returned a different table than Pandas: {d}",
                    {"kind": "mismatch", "mode": label, "null_join_key": c01.has_nullable_join_key(case), **classify(case)},
                    {"pandas": cmp.brief(p), "polars": cmp.brief(q)},
                ),
                info,
            )
    if res["eager"] is not None and res["lazy"] is not None:
        d = cmp.compare(res["eager"], res["lazy"], ordered_by=ordered_by)
        if d is not None:
            return Failure(f"Polars eager and lazy differ: {d}", {"kind": "eager_lazy"}, {"eager": cmp.brief(res["eager"]), "lazy": cmp.brief(res["lazy"])}), info
    if res["eager"] is not None or res["lazy"] is not None:
        info["polars_returned"] = True
    return None, info


def classify(case):
    """Root-cause hints used only to match recorded findings (never to excuse an unknown failure)."""
    fs = {}
    ops_used = set()
    for i in spec.reachable(case):
        nd = case["nodes"][i]
        if nd["op"] in ("extend", "project"):
            for _, e in nd["ops"]:
                ops_used |= spec.expr_ops(e)
        if nd["op"] == "natural_join" and nd["jointype"].lower() == "full":
            fs["full_join"] = True
    if "nunique" in ops_used:
        fs["nunique"] = True
    return fs


def replay(check, case):
    f, _ = differential(case, zn_override=() if case.get("nan_flow") else None)
    return f


# ---- NaN made inside the pipeline -------------------------------------------------------------------------------
# 0.0 / 0.0 is NaN: Pandas' missing value, SQL's NULL, but a non-null float in Polars. The Polars model handles that
# explicitly in some methods (count skips NaN, is_bad reports it); "nan_flow" cases compute r = x / y with 0/0 rows
# (never k/0: infinity is a different story) and feed r to ONE consumer.
NAN_AWARE = ["count", "max", "min", "size", "is_bad"]  # agree on the unchanged tree
NAN_OPEN = ["sum", "mean", "is_null", "coalesce", "nunique"]  # recorded finding F78 (flag nan_null_semantics)


@st.composite
def nan_flow_cases(draw, closed=()):
    from ..gen import FLOAT_VALS

    n = draw(st.integers(1, 6))
    rows = []
    for i in range(n):
        y = draw(st.sampled_from([0.0, 0.0, 1.0, 2.0, 4.0, -2.0]))
        x = 0.0 if y == 0.0 else draw(st.sampled_from(FLOAT_VALS))
        rows.append([i + 1, draw(st.sampled_from(["a", "b"])), x, y])
    t1 = {"cols": [["id", "int", False], ["g", "str", False], ["x", "float", False], ["y", "float", False]], "rows": rows, "keys": [["id"]]}
    methods = list(NAN_AWARE)
    excluded = 0
    if "nan_null_semantics" in closed:
        excluded = 1
    else:
        methods += NAN_OPEN
    fn = draw(st.sampled_from(methods))
    R = ["col", "r"]
    nodes = [{"op": "table", "name": "t1"}, {"op": "extend", "src": 0, "ops": [["r", ["call", "/", [["col", "x"], ["col", "y"]]]]]}]
    if fn in ("is_bad", "is_null"):
        nodes.append({"op": "extend", "src": 1, "ops": [["q", ["call", fn, [R]]]]})
    elif fn == "coalesce":
        nodes.append({"op": "extend", "src": 1, "ops": [["w", ["call", "coalesce", [R, ["lit", 9.0]]]]]})
    else:
        shape = draw(st.sampled_from(["grouped", "ungrouped", "window"]))
        e = ["call", fn, [R]]
        if shape == "window" and fn != "nunique":
            nodes.append({"op": "extend", "src": 1, "ops": [["w", e]], "partition_by": ["g"]})
        else:
            nodes.append({"op": "project", "src": 1, "ops": [["w", e]], "group_by": ["g"] if shape != "ungrouped" else []})
    return {"tables": {"t1": t1}, "nodes": nodes, "root": 2, "expr_mode": "text", "nan_flow": fn, "excluded_by_construction": excluded}


def run(ctx):
    ev = ctx.ev
    ev.rule = (
        "random well-typed operator DAGs (vp.gen.programs) evaluated by the Pandas executor and by the Polars executor (eager and lazy, "
        "explicit input dtypes); non-trivial = Polars returned a frame AND the program has >=1 of join/project/window/concat/"
        "convert_records/select_rows; distinct = SHA-1 of the case JSON. Polars exceptions are allowed and counted per bucket."
    )
    ev.assumptions = [
        "Pandas is the reference side; regions where Pandas itself is a recorded finding are closed by flag",
        "method fragment as in C01; zero/null tolerant columns as in C01",
    ]
    ctx.probe_findings(replay)
    cfg = dict(BASE_CFG)
    cfg["closed"] = set(ctx.closed)

    def oracle(case):
        f, info = differential(case)
        fs = gen.features(case)
        returned = bool(info.get("polars_returned"))
        nt = returned and any(x in fs for x in ("join", "project", "project_ungrouped", "window", "ordered_window", "concat_rows", "convert_records", "select_rows"))
        ev.note(case, nt, fs + (["polars_returned"] if returned else ["polars_raised"]), sample={"program": c01._sample(case)})
        for k, v in info.items():
            if k.startswith("polars_raised_"):
                ev.count(f"{k}:{v}")
            elif k in ("builder_rejected", "pandas_raised"):
                ev.count(k)
        if case.get("excluded_by_construction"):
            ev.count("excluded_by_construction", case["excluded_by_construction"])
        return f

    ctx.campaign("main", gen.programs(cfg), oracle, max_examples=ctx.n(1500, 64000))

    def nan_oracle(case):
        f, info = differential(case, zn_override=())
        has_nan = any(r[3] == 0.0 for r in case["tables"]["t1"]["rows"])
        returned = bool(info.get("polars_returned"))
        ev.note(case, returned and has_nan, ["nan_flow", "nan_flow_" + case["nan_flow"]] + (["nan_present"] if has_nan else []) + (["polars_returned"] if returned else ["polars_raised"]), sample={"program": c01._sample(case)})
        for k, v in info.items():
            if k.startswith("polars_raised_"):
                ev.count(f"{k}:{v}")
        if case.get("excluded_by_construction"):
            ev.count("excluded_by_construction", case["excluded_by_construction"])
        if f is not None:
            f.sig["nan_flow"] = case["nan_flow"] in NAN_OPEN
        return f

    ctx.campaign("nan_flow", nan_flow_cases(ctx.closed), nan_oracle, max_examples=ctx.n(150, 8000))
