"""C20 — data spaces behave like a keyed store of tables (stateful, model-based).

Two real spaces are driven side by side by the same plain-data history:
  * ``mem``: data_algebra.data_model_space.DataModelSpace (Pandas),
  * ``db`` : data_algebra.db_space.DBSpace on a fresh in-memory SQLite handle,
each paired with its own Python-dict model ``key -> pandas frame`` (the model frames are never handed to
a space; every space receives a freshly built frame).

Ops (plain data):
  ["insert",  key|None, frame, allow_overwrite]      frame = {"cols": [...], "rows": [[...], ...]}
  ["execute", pipe,     key|None, allow_overwrite]   pipe  = ["extend", src, newcol, addend] | ["select", src, thr]
                                                            | ["join", a, b] | ["sum", src] | ["cols", src]
  ["remove", key]  ["describe", key]  ["retrieve", key]  ["keys"]

Model semantics (property text + DataSpace docstrings + DESIGN.md C20): an operation is *illegal* iff it is a
write with allow_overwrite=False onto an existing key, or a remove/describe/retrieve of a missing key; an
illegal operation must raise and change nothing, a legal one must succeed; a write with key=None must come
back under a name that was not present; after every step keys(), retrieve(k) and describe(k).column_names
of every stored key agree with the model.  execute() must store what plain Pandas evaluation of the same
pipeline gives on the model's current frames.
"""

from __future__ import annotations

import re

from hypothesis import strategies as st
from hypothesis.stateful import RuleBasedStateMachine, rule

from .. import cmp
from ..common import Failure, MachineMixin, canon

PID = "C20"
SHARDABLE = True

# Names the implementations generate for key=None are f"da_temp_{n}", n = 1, 2, ... (both spaces).
AUTO_NAMES = ["da_temp_1", "da_temp_2", "da_temp_3"]
USER_NAMES = ["a", "b", "c"]
POOL = USER_NAMES + AUTO_NAMES
AUTO_RE = re.compile(r"^da_temp_\d+$")

OP_WEIGHTS = ["insert"] * 4 + ["execute"] * 6 + ["remove"] * 2 + ["describe", "retrieve", "keys"]

MAX_ROWS = 60  # guards: a pipeline whose reference result is larger / numerically bigger is not run at all
MAX_ABS = 1.0e9

COL_SETS = [["k", "x"], ["x", "k"], ["k", "x", "y"], ["k", "x", "g"], ["g", "k", "y", "x"]]
NEW_COLS = ["x", "z1", "z2"]
_DTYPES = {"k": "int64", "x": "int64", "y": "float64"}


# ---- building real objects from plain data ------------------------------------------------------


def mk_frame(fr):
    """A fresh Pandas frame with explicit dtypes (also for zero rows)."""
    import pandas as pd

    cols = list(fr["cols"])
    rows = fr["rows"]
    data = {}
    for j, c in enumerate(cols):
        vals = [r[j] for r in rows]
        if c in _DTYPES:
            data[c] = pd.Series(vals, dtype=_DTYPES[c])
        else:
            data[c] = pd.Series(vals, dtype=object if not vals else None)
    return pd.DataFrame(data, columns=cols)


def pipe_sources(pipe):
    if pipe[0] == "join":
        return [pipe[1], pipe[2]]
    return [pipe[1]]


def build_pipe(pipe, descr_of):
    """The fixed pipeline family; `descr_of(key)` supplies the table descriptions."""
    kind = pipe[0]
    if kind == "extend":
        return descr_of(pipe[1]).extend({pipe[2]: f"x + {int(pipe[3])}"})
    if kind == "select":
        return descr_of(pipe[1]).select_rows(f"x >= {int(pipe[2])}")
    if kind == "join":
        return descr_of(pipe[1]).natural_join(descr_of(pipe[2]), on=["k"], jointype="inner")
    if kind == "sum":
        return descr_of(pipe[1]).project({"x": "x.sum()"}, group_by=["k"])
    if kind == "cols":
        return descr_of(pipe[1]).select_columns(["k", "x"])
    raise ValueError(f"unknown pipeline {pipe!r}")


def too_big(frame) -> bool:
    if frame.shape[0] > MAX_ROWS:
        return True
    for c in frame.columns:
        if c in ("g",):
            continue
        col = frame[c]
        if len(col) and float(col.abs().max()) > MAX_ABS:
            return True
    return False


# ---- state -----------------------------------------------------------------------------------------


class Pair:
    """One real space with its own dict model."""

    def __init__(self, name, space):
        self.name = name
        self.space = space
        self.model = {}  # key -> pandas frame owned by the model
        self.auto_issued = set()  # present keys whose name the space itself handed out for key=None
        self.last_cols = {}  # key -> column names when it was last written (for pipelines over removed entries)


class State:
    def __init__(self):
        import data_algebra.SQLite
        from data_algebra.data_model_space import DataModelSpace
        from data_algebra.db_space import DBSpace

        self.handle = data_algebra.SQLite.example_handle()
        self.pairs = [Pair("mem", DataModelSpace()), Pair("db", DBSpace(self.handle))]
        self.feats = set()
        self.marks = set()  # what makes the history non-trivial
        self.removed = set()
        self.op_counts = {}  # outcome -> number of (op, space) applications

    def feat(self, f):
        self.feats.add(f)
        self.op_counts[f] = self.op_counts.get(f, 0) + 1

    def keys_now(self):
        r = set()
        for p in self.pairs:
            r.update(p.model.keys())
        return sorted(r)

    def present_everywhere(self, key):
        return all(key in p.model for p in self.pairs)

    def close(self):
        for p in self.pairs:
            try:
                p.space.close()
            except Exception:
                pass
        try:
            self.handle.close()
        except Exception:
            pass


# ---- oracle ----------------------------------------------------------------------------------------


def _cols_of(descr):
    return sorted(str(c) for c in descr.column_names)


def check_state(pair: Pair, where: str, sig: dict) -> "Failure | None":
    sp, model = pair.space, pair.model
    try:
        got = sp.keys()
        got_set = set(got)
    except Exception as e:
        return Failure(f"[{pair.name}] keys() raised {type(e).__name__}: {e} after {where}", dict(sig, kind="keys_raised"))
    if got_set != set(model.keys()):
        return Failure(
            f"[{pair.name}] keys() = {sorted(got_set)!r} but the successful operations so far leave "
            f"{sorted(model.keys())!r} (after {where})",
            dict(sig, kind="keys"),
        )
    for k in sorted(model.keys()):
        exp = cmp.normalise(model[k])
        try:
            fr = sp.retrieve(k)
        except Exception as e:
            return Failure(
                f"[{pair.name}] retrieve({k!r}) raised {type(e).__name__}: {e} after {where}",
                dict(sig, kind="retrieve_raised"),
            )
        d = cmp.compare(cmp.normalise(fr), exp)
        if d is not None:
            return Failure(
                f"[{pair.name}] retrieve({k!r}) differs from the model after {where}: {d}",
                dict(sig, kind="content"),
                {"got": cmp.brief(cmp.normalise(fr)), "expected": cmp.brief(exp)},
            )
        try:
            dc = _cols_of(sp.describe(k))
        except Exception as e:
            return Failure(
                f"[{pair.name}] describe({k!r}) raised {type(e).__name__}: {e} after {where}",
                dict(sig, kind="describe_raised"),
            )
        if dc != sorted(exp[0]):
            return Failure(
                f"[{pair.name}] describe({k!r}).column_names = {dc!r}, stored table has {sorted(exp[0])!r} (after {where})",
                dict(sig, kind="describe"),
            )
    return None


def _auto_collision_on_raise(pair: Pair) -> "str | None":
    """Labelling only (never decides a verdict): the present key a raising key=None write aimed at, if any.
    Both implementations advance `n_tmp` before they test for presence."""
    n = getattr(pair.space, "n_tmp", None)
    if isinstance(n, int) and f"da_temp_{n}" in pair.model:
        return f"da_temp_{n}"
    return None


def _victim(pair: Pair, name: str) -> str:
    """Who put the entry an automatic name collided with under that name: the user, or the space itself
    (the latter means the counter re-issued a name that is still in use - a different defect)."""
    return "auto" if name in pair.auto_issued else "user"


def _write(pair: Pair, st_: State, opname, key, ao, call, new_frame, where, sig) -> "Failure | None":
    """Common part of insert / execute: legality, raise-or-succeed, returned description, model update."""
    model = pair.model
    legal = key is None or ao or key not in model
    raised = None
    descr = None
    try:
        descr = call()
    except Exception as e:  # AssertionError / KeyError / ValueError / sqlite3 errors: all count as "raised"
        raised = e
    if not legal:
        if raised is None:
            return Failure(
                f"[{pair.name}] {where} with allow_overwrite=False on existing key {key!r} did not raise",
                dict(sig, kind="illegal_op_succeeded"),
            )
        st_.feat(f"{opname}:rejected_no_overwrite")
        st_.marks.add("illegal_rejected")
        return None  # check_state demands that nothing changed
    if raised is not None:
        hit = _auto_collision_on_raise(pair) if key is None else None
        if hit is not None:
            return Failure(
                f"[{pair.name}] {where}: a write under an automatic name raised {type(raised).__name__} because the "
                f"generated name {hit!r} is taken by an existing entry",
                dict(sig, kind="auto_key_collision", effect="raised", victim=_victim(pair, hit)),
            )
        kind = "legal_op_raised"
        if sig.get("reads_overwritten"):
            kind = "execute_reads_overwritten_key"
        return Failure(
            f"[{pair.name}] legal {where} raised {type(raised).__name__}: {raised}", dict(sig, kind=kind)
        )
    name = getattr(descr, "table_name", None)
    if not isinstance(name, str):
        return Failure(f"[{pair.name}] {where} returned {type(descr).__name__} without a table name", dict(sig, kind="return"))
    if key is not None:
        if name != key:
            return Failure(f"[{pair.name}] {where} returned a description named {name!r}", dict(sig, kind="return"))
        if key in model:
            st_.marks.add("overwrite")
            st_.feat(f"{opname}:overwrite")
        if key in st_.removed:
            st_.marks.add("reuse_after_remove")
            st_.feat("reuse_after_remove")
    else:
        st_.feat(f"{opname}:auto_key")
        if name in model:
            return Failure(
                f"[{pair.name}] {where}: the automatically named entry {name!r} replaced an existing entry",
                dict(sig, kind="auto_key_collision", effect="replaced", victim=_victim(pair, name)),
            )
        pair.auto_issued.add(name)
    exp_cols = sorted(str(c) for c in new_frame.columns)
    if _cols_of(descr) != exp_cols:
        return Failure(
            f"[{pair.name}] {where} returned a description with columns {_cols_of(descr)!r}, stored table has {exp_cols!r}",
            dict(sig, kind="return"),
        )
    model[name] = new_frame
    pair.last_cols[name] = [str(c) for c in new_frame.columns]
    st_.feat(f"{opname}:ok")
    return None


def _apply_pair(pair: Pair, st_: State, op) -> "Failure | None":
    from data_algebra.data_ops import describe_table

    sp, model = pair.space, pair.model
    name = op[0]
    sig = {"space": pair.name, "op": name}
    where = f"{name}{tuple(op[1:])!r}" if name != "insert" else f"insert(key={op[1]!r}, allow_overwrite={op[3]!r})"

    if name == "insert":
        _, key, fr, ao = op
        sig["auto"] = key is None
        f = _write(
            pair, st_, "insert", key, ao,
            lambda: sp.insert(key=key, value=mk_frame(fr), allow_overwrite=bool(ao)),
            mk_frame(fr), where, sig,
        )
        if f is not None:
            return f
    elif name == "execute":
        _, pipe, key, ao = op
        srcs = pipe_sources(pipe)
        if any(s not in model for s in srcs):
            # a pipeline built on the description of an entry that has been removed since: execute must fail and, like
            # every failed operation, leave keys() / retrieve() exactly as they were (check_state runs right after)
            if not all(s in model or s in pair.last_cols for s in srcs):
                st_.feat("execute:skipped_missing_source")
                return None
            from data_algebra.data_ops import TableDescription

            try:
                ops_s = build_pipe(pipe, lambda k: sp.describe(k) if k in model else TableDescription(table_name=k, column_names=pair.last_cols[k]))
            except Exception:
                st_.feat("execute:skipped_missing_source")
                return None
            try:
                sp.execute(ops_s, key=key, allow_overwrite=bool(ao))
            except Exception:
                st_.feat("execute:failed_on_removed_source")
                st_.marks.add("failed_execute")
                if key is not None and key in model:
                    st_.marks.add("failed_execute_on_existing_target")
                return None
            return Failure(
                f"[{pair.name}] {where} reads a removed entry and did not raise",
                dict(sig, kind="execute_on_removed_source_succeeded"),
            )
        ops_m = build_pipe(pipe, lambda k: describe_table(model[k], table_name=k))
        expected = ops_m.eval({k: model[k] for k in srcs})  # trusted: Pandas executor on the model's frames
        if too_big(expected):
            st_.feat("execute:skipped_large")
            return None
        sig["auto"] = key is None
        sig["pipe"] = pipe[0]
        sig["reads_overwritten"] = key is not None and key in srcs
        if sig["reads_overwritten"]:
            st_.feat("execute:reads_target")
            if ao:
                st_.marks.add("reads_overwritten")
        try:
            ops_s = build_pipe(pipe, sp.describe)
        except Exception as e:
            return Failure(
                f"[{pair.name}] building {pipe!r} from describe() of existing keys raised {type(e).__name__}: {e}",
                dict(sig, kind="describe_raised"),
            )
        st_.feat(f"execute:{pipe[0]}")
        f = _write(
            pair, st_, "execute", key, ao,
            lambda: sp.execute(ops_s, key=key, allow_overwrite=bool(ao)),
            expected, where, sig,
        )
        if f is not None:
            return f
    elif name in ("remove", "describe", "retrieve"):
        key = op[1]
        legal = key in model
        raised, res = None, None
        try:
            res = getattr(sp, name)(key)
        except Exception as e:
            raised = e
        if legal and raised is not None:
            return Failure(
                f"[{pair.name}] {name}({key!r}) of an existing key raised {type(raised).__name__}: {raised}",
                dict(sig, kind="legal_op_raised"),
            )
        if not legal:
            if raised is None:
                return Failure(f"[{pair.name}] {name}({key!r}) of a missing key did not raise", dict(sig, kind="illegal_op_succeeded"))
            st_.feat(f"{name}:rejected_missing")
            st_.marks.add("illegal_rejected")
        else:
            st_.feat(f"{name}:ok")
            if name == "remove":
                del model[key]
                pair.auto_issued.discard(key)
                st_.removed.add(key)
            elif name == "describe":
                exp_cols = sorted(str(c) for c in model[key].columns)
                if getattr(res, "table_name", None) != key or _cols_of(res) != exp_cols:
                    return Failure(
                        f"[{pair.name}] describe({key!r}) = table {getattr(res, 'table_name', None)!r} columns "
                        f"{_cols_of(res)!r}, expected columns {exp_cols!r}",
                        dict(sig, kind="describe"),
                    )
            else:
                d = cmp.compare(cmp.normalise(res), cmp.normalise(model[key]))
                if d is not None:
                    return Failure(f"[{pair.name}] retrieve({key!r}) differs from the model: {d}", dict(sig, kind="content"))
    elif name == "keys":
        st_.feat("keys:ok")  # check_state below does the comparison
    else:
        raise ValueError(f"unknown op {op!r}")
    return check_state(pair, where, sig)


def apply_op(st_: State, op) -> "Failure | None":
    """Apply one plain-data op to both spaces and their models; compare."""
    for pair in st_.pairs:
        f = _apply_pair(pair, st_, op)
        if f is not None:
            return f
    return None


def run_history(history) -> "Failure | None":
    s = State()
    try:
        for op in history:
            f = apply_op(s, op)
            if f is not None:
                return f
        return None
    finally:
        s.close()


def replay(check, case):
    return run_history(case)


def minimise(history, failure, is_known=lambda f: False, budget=150):
    """Greedy one-op deletion: keep a shorter history if it still fails the same way (kind, space) and is not a
    recorded finding. Hypothesis shrinks these histories poorly because later draws depend on the stored keys."""
    want = (failure.sig.get("kind"), failure.sig.get("space"))
    hist, best = list(history), failure
    changed = True
    while changed and budget > 0:
        changed = False
        i = len(hist) - 2  # the last op is the failing one
        while i >= 0 and budget > 0:
            cand = hist[:i] + hist[i + 1 :]
            budget -= 1
            f = run_history(cand)
            if f is not None and (f.sig.get("kind"), f.sig.get("space")) == want and not is_known(f):
                hist, best, changed = cand, f, True
            i -= 1
    return hist, best


# ---- strategies ---------------------------------------------------------------------------------


@st.composite
def frame_st(draw):
    cols = draw(st.sampled_from(COL_SETS))
    n = draw(st.integers(0, 4))
    cell = {
        "k": st.integers(0, 2),
        "x": st.integers(-3, 5),
        "y": st.sampled_from([0.5, 1.5, -2.0, 4.0]),
        "g": st.sampled_from(["u", "v", "w w"]),
    }
    rows = [[draw(cell[c]) for c in cols] for _ in range(n)]
    return {"cols": list(cols), "rows": rows}


class DataSpaceMachine(MachineMixin, RuleBasedStateMachine):
    def __init__(self):
        RuleBasedStateMachine.__init__(self)
        self.init_machine()
        self.s = State()

    # -- helpers
    def _closed(self, flag):
        return self._ctx is not None and flag in self._ctx.closed

    def _count_excl(self):
        if self._ctx is not None:
            self._ctx.ev.count("excluded_by_construction")

    def _target(self, data, sources=()):
        """Key of a write: None (automatic) or a pool / existing key; closed regions are avoided here."""
        cands = [None] + sorted(set(POOL) | set(self.s.keys_now()))
        key = data.draw(st.sampled_from(cands), label="key")
        if key is not None and self._closed("auto_key_collision"):
            # a user key equal to a (future) automatic name: only overwriting one that exists is harmless
            if AUTO_RE.match(key) and not self.s.present_everywhere(key):
                self._count_excl()
                key = USER_NAMES[int(key.rsplit("_", 1)[1]) % len(USER_NAMES)]
        if key is not None and key in sources and self._closed("execute_reads_overwritten_key"):
            self._count_excl()
            key = None
        return key

    def _any_key(self, data):
        have = self.s.keys_now()
        if have and data.draw(st.integers(0, 3), label="existing") != 0:
            return data.draw(st.sampled_from(have), label="key")
        return data.draw(st.sampled_from(sorted(set(POOL) | set(have))), label="key")

    def _do(self, op):
        if self.dead:
            return
        self.history.append(op)
        f = apply_op(self.s, op)
        self.feats.update(self.s.feats)
        if self.s.marks & {"overwrite", "reuse_after_remove", "illegal_rejected", "reads_overwritten", "failed_execute"}:
            self.nontrivial = True
        if f is not None:
            self.fail(f)

    def fail(self, failure):
        ctx = self._ctx
        if ctx is not None and ctx.findings.match(failure.sig) is None:
            size = len(canon(self.history))
            if not self._sink or size < min(t[0] for t in self._sink):
                again = run_history(self.history)
                if again is not None and again.sig == failure.sig:  # reproducible from the plain-data history
                    self.history, failure = minimise(
                        self.history, failure, lambda f: ctx.findings.match(f.sig) is not None
                    )
        MachineMixin.fail(self, failure)

    # -- rules (one weighted rule: writes must outnumber removals or the store is empty most of the time)
    def _draw_execute(self, data, ao):
        have = self.s.keys_now()
        gone = sorted(k for k in self.s.removed if k not in have)
        if gone and data.draw(st.integers(0, 4), label="stale_source") == 0:
            # a pipeline over an entry removed earlier: must fail without touching the store
            src = data.draw(st.sampled_from(gone), label="src")
            kind = data.draw(st.sampled_from(["extend", "select", "cols"]), label="kind")
            pipe = {"extend": ["extend", src, "z", 1], "select": ["select", src, 0], "cols": ["cols", src]}[kind]
            key = data.draw(st.sampled_from([None] + have + have), label="key") if have else None
            return ["execute", pipe, key, ao]
        src = data.draw(st.sampled_from(have), label="src")
        kind = data.draw(st.sampled_from(["extend", "select", "join", "sum", "cols"]), label="kind")
        if kind == "extend":
            pipe = ["extend", src, data.draw(st.sampled_from(NEW_COLS)), data.draw(st.integers(-2, 3))]
        elif kind == "select":
            pipe = ["select", src, data.draw(st.integers(-3, 6))]
        elif kind == "join":
            pipe = ["join", src, data.draw(st.sampled_from(have), label="src2")]
        else:
            pipe = [kind, src]
        # make "the pipeline reads the key it overwrites" common, not a 1-in-7 accident
        if data.draw(st.integers(0, 3), label="aim_at_source") == 0:
            key = data.draw(st.sampled_from(pipe_sources(pipe)))
            if self._closed("execute_reads_overwritten_key"):
                self._count_excl()
                key = None
        else:
            key = self._target(data, pipe_sources(pipe))
        return ["execute", pipe, key, ao]

    @rule(data=st.data())
    def step(self, data):
        if self.dead:
            return
        kind = data.draw(st.sampled_from(OP_WEIGHTS), label="op")
        if kind == "execute" and not self.s.keys_now():
            kind = "insert"
        if kind == "insert":
            fr = data.draw(frame_st(), label="frame")
            ao = data.draw(st.booleans(), label="allow_overwrite")
            op = ["insert", self._target(data), fr, ao]
        elif kind == "execute":
            ao = data.draw(st.booleans(), label="allow_overwrite")
            op = self._draw_execute(data, ao)
        elif kind == "keys":
            op = ["keys"]
        else:
            op = [kind, self._any_key(data)]
        self._do(op)

    def teardown(self):
        try:
            self.finish_machine()
            if self._ctx is not None:
                self._ctx.ev.count("machines")
                self._ctx.ev.count("steps", len(self.history))
                for k, v in self.s.op_counts.items():
                    self._ctx.ev.count(f"op:{k}", v)
        finally:
            self.s.close()


def run(ctx):
    ev = ctx.ev
    ev.rule = (
        "histories (<= 25 steps) of insert/execute/remove/describe/retrieve/keys drawn by a Hypothesis "
        "RuleBasedStateMachine (one rule, op kind weighted insert 4 : execute 6 : remove 2 : describe/retrieve/keys 1 each, "
        "keys drawn from the current model keys 3 times out of 4 for remove/describe/retrieve); key pool a,b,c + the automatic names "
        "da_temp_1..3 (+ any key currently stored) + None (automatic); frames of 0-4 null-free rows with int key k, "
        "int x and optional float y / str g; pipelines extend / select_rows / inner natural_join on k (incl. self "
        "join) / project sum by k / select_columns over 1-2 existing keys, 1 in 4 aimed at one of their own sources; "
        "every op is applied to DataModelSpace and DBSpace(SQLite :memory:) and to one dict model each, the whole "
        "store is compared after every step. non-trivial = history with a successful overwrite of an existing key, "
        "a key reused after its removal, an illegal operation that has to be rejected, or an execute overwriting a "
        "key its pipeline reads. distinct = SHA-1 of the history. counters op:<op>:<outcome> count (op, space) applications; "
        "a failing history is additionally minimised by greedy one-op deletion through the same apply_op."
    )
    ev.assumptions = [
        "illegal operations (allow_overwrite=False on an existing key; remove/describe/retrieve of a missing key) are "
        "required to raise some Exception and to change nothing (DESIGN.md C20 oracle); the exception type is not checked",
        "insert()/execute() results are only checked for: has a str table_name equal to the requested key (for key=None: "
        "a name not present before) and column_names equal, as a set, to the stored table's columns; describe() likewise; "
        "column types / row order / column order of retrieve() are not checked (column set + row multiset, numeric "
        "tolerance, null==NaN via vp.cmp)",
        "the expected result of execute() is the Pandas executor's result (ops.eval) on the model's frames, with the "
        "pipeline rebuilt from describe_table(model frame) - trusted; the pipeline family is null-free, int/float/str "
        "only, inner joins on a non-null int key, so Pandas and SQLite semantics coincide",
        f"pipelines whose reference result has > {MAX_ROWS} rows or a number above {MAX_ABS:g} in magnitude are not run (skipped_large)",
        "whether retrieve()/insert() copy the frame is not documented and not checked: the harness never mutates a frame "
        "it has handed to or got from a space",
        "keys are plain identifiers that differ by more than letter case (SQLite table names are case-insensitive); "
        "tables have at least one column (DBSpace adds an _index column to zero-column frames)",
        "only the SQLite-backed DBSpace is exercised (no other database server in this environment)",
        "the automatic-name counter n_tmp is read only to label a raising key=None write as auto_key_collision; it never "
        "decides whether something is a violation",
    ]
    ev.trusted_base = ["data_algebra Pandas executor on a 5-pipeline family (covered by C01)", "vp.cmp"]
    ctx.probe_findings(replay)
    ctx.machine_campaign("history", DataSpaceMachine, max_examples=ctx.n(150, 24000), step_count=25)
