"""C27 — windowed and ordered window functions are computed per ordered partition (model-based).

One table (0-2 NULL-able partition columns, 1-3 order columns made total by a unique row id, any subset reversed,
value columns with NULLs) and one windowed extend with 1-3 functions, either ordered
{cumsum, cummax, cummin, cumprod, _row_number, shift(+-k), rank, first, last, ffill, bfill} or unordered
{sum, mean, min, max, count, size, _size, median, nunique, std, var}. The reference (vp.ref.window_values) evaluates
each function per partition in the declared order; Pandas must match for every function, SQLite for the functions
the catalogue marks 'y' for it, Polars whenever it returns.
"""

from __future__ import annotations

from hypothesis import strategies as st

from .. import cmp, engines, ref, spec
from ..common import Failure

PID = "C27"

# fn -> (ordered?, needs_arg, arg null allowed, sqlite supported per catalogue)
FNS = {
    "cumsum": (True, True, False, True),
    "cummax": (True, True, False, True),
    "cummin": (True, True, False, True),
    "cumprod": (True, True, False, False),
    "_row_number": (True, False, False, True),
    "shift": (True, True, True, True),
    "rank": (True, True, False, False),
    "first": (True, True, False, False),
    "last": (True, True, False, False),
    "ffill": (True, True, True, False),
    "bfill": (True, True, True, False),
    "sum": (False, True, True, True),
    "mean": (False, True, True, True),
    "min": (False, True, True, True),
    "max": (False, True, True, True),
    "count": (False, True, True, True),
    "size": (False, True, True, True),
    "_size": (False, False, False, True),
    "median": (False, True, True, False),
    "nunique": (False, True, True, False),
    "std": (False, True, True, False),
    "var": (False, True, True, False),
}


@st.composite
def window_cases(draw):
    pick = lambda xs: draw(st.sampled_from(xs))
    npart = pick([0, 1, 1, 2])
    nord = pick([1, 1, 2, 3])
    cols = [["id", "int", False]]
    parts = []
    for i in range(npart):
        t = pick(["str", "int", "float"])
        nullable = t != "int" and draw(st.booleans())
        name = ["g", "k2", "h"][i] if t != "int" else ["k", "k3", "k4"][i]
        cols.append([name, t, nullable])
        parts.append(name)
    ords = []
    for i in range(nord - 1):
        t = pick(["int", "float", "str"])
        name = f"o{i}"
        cols.append([name, t, False])
        ords.append(name)
    cols.append(["v", "float", True])   # nullable value
    cols.append(["w", "float", False])  # non-null value (dyadic, small: cumprod stays exact)
    cols.append(["u", "int", False])
    n = pick([0, 1, 2, 3, 4, 5, 6, 7, 8])
    ids = list(draw(st.permutations(list(range(1, n + 1)))))
    rows = []
    for i in range(n):
        r = []
        for name, t, nullable in cols:
            if name == "id":
                r.append(ids[i])
            elif name == "v":
                r.append(None if draw(st.sampled_from(range(4))) == 0 else pick([-2.0, -0.5, 0.0, 0.5, 1.0, 3.0]))
            elif name == "w":
                r.append(pick([-2.0, -1.0, 0.5, 1.0, 2.0]))
            elif name == "u":
                r.append(pick([-1, 0, 1, 2]))
            elif nullable and draw(st.sampled_from(range(4))) == 0:
                r.append(None)
            else:
                r.append(pick({"int": [0, 1, 2], "float": [0.5, 1.5], "str": ["a", "b", "c"]}[t]))
        rows.append(r)
    ordered = draw(st.booleans())
    order_by = []
    reverse = []
    if ordered:
        order_by = ords + ["id"]
        if draw(st.booleans()) and ords:
            order_by = list(draw(st.permutations(ords))) + ["id"]
        reverse = [c for c in order_by if draw(st.booleans())]
    ops = []
    names = ["r1", "r2", "r3"]
    pool = [f for f, (o, *_rest) in FNS.items() if o == ordered]
    for i in range(pick([1, 1, 2, 3])):
        fn = pick(pool)
        _, needs_arg, null_ok, _sq = FNS[fn]
        args = []
        if needs_arg:
            if fn == "rank":
                arg = "id"  # distinct values: rank is unambiguous and position independent
            else:
                arg = pick(["v", "w", "u"] if null_ok else ["w", "u"])
            args = [["col", arg]]
            if fn == "shift" and draw(st.booleans()):
                args.append(["lit", pick([1, 2, -1, -2])])
        ops.append([names[i], ["call", fn, args]])
    nd = {"op": "extend", "src": 0, "ops": ops, "partition_by": parts if parts else 1}
    if order_by:
        nd["order_by"] = order_by
        if reverse:
            nd["reverse"] = reverse
    nodes = [{"op": "table", "name": "t1"}, nd]
    root = 1
    if order_by and draw(st.sampled_from(range(10))) < 3:
        # the leading order column is computed by the directly preceding plain extend (new column or overwrite):
        # SQL-level extend merging must not let the window read the stale/unknown column
        target = pick(["oc", "u"])
        pre = {"op": "extend", "src": 0, "ops": [[target, ["call", "-", [["lit", 10], ["col", "u"]]]]]}
        used = {a[1] for _, e in ops for a in e[2] if a[0] == "col"}
        if target not in used:
            nd["src"] = 1
            nd["order_by"] = [target] + [c for c in order_by if c != target]
            if draw(st.booleans()):
                nd["reverse"] = sorted(set(nd.get("reverse") or []) | {target})
            nodes = [{"op": "table", "name": "t1"}, pre, nd]
            root = 2
    return {
        "tables": {"t1": {"cols": cols, "rows": rows, "keys": [["id"]]}},
        "nodes": nodes,
        "root": root,
        "expr_mode": pick(["text", "text", "object"]),
    }


def reference(case):
    t = case["tables"]["t1"]
    nd = case["nodes"][case["root"]]
    cols = [e[0] for e in t["cols"]]
    rows = [[cmp.norm_cell(v) for v in r] for r in t["rows"]]
    if case["root"] == 2:  # preceding plain extend: target = 10 - u
        target = case["nodes"][1]["ops"][0][0]
        ui = cols.index("u")
        if target in cols:
            for r in rows:
                r[cols.index(target)] = 10.0 - r[ui]
        else:
            cols = cols + [target]
            rows = [r + [10.0 - r[ui]] for r in rows]
    pb = nd["partition_by"] if isinstance(nd["partition_by"], list) else []
    pidx = [cols.index(c) for c in pb]
    groups = {}
    for r in rows:
        k = tuple(("N",) if r[i] is None else ("V", r[i]) for i in pidx)
        groups.setdefault(k, []).append(r)
    order_by = nd.get("order_by") or []
    rev = set(nd.get("reverse") or [])
    out = []
    for k, part in groups.items():
        p = list(part)
        for c in reversed(order_by):
            p.sort(key=lambda r, j=cols.index(c): r[j], reverse=(c in rev))
        newvals = {}
        for name, e in nd["ops"]:
            fn = e[1]
            arg = e[2][0][1] if e[2] else None
            params = [a[1] for a in e[2][1:]]
            newvals[name] = ref.window_values(fn, p, cols.index(arg) if arg is not None else None, params)
        for i, r in enumerate(p):
            out.append(list(r) + [newvals[name][i] for name, _ in nd["ops"]])
    return cols + [name for name, _ in nd["ops"]], out


def match_multiset(expected_rows, got_rows):
    rest = list(got_rows)
    for ex in expected_rows:
        hit = None
        for k, got in enumerate(rest):
            if all(ref.accept(a, b, cmp.cell_eq) for a, b in zip(ex, got)):
                hit = k
                break
        if hit is None:
            return ex
        rest.pop(hit)
    return None


def check(case):
    info = {}
    nd = case["nodes"][case["root"]]
    fns = [e[1] for _, e in nd["ops"]]
    try:
        ops = spec.build(case)
    except Exception as e:
        info["builder_rejected"] = f"{type(e).__name__}: {e}"
        return None, info
    ecols, erows = reference(case)
    sqlite_ok = all(FNS[f][3] for f in fns)
    pt = spec.pandas_tables(case, ["t1"])
    results = {}
    for engine in ("pandas", "sqlite", "polars"):
        if engine == "sqlite" and not sqlite_ok:
            continue
        try:
            if engine == "pandas":
                results[engine] = engines.run_pandas(ops, pt)
            elif engine == "polars":
                results[engine] = engines.run_polars(ops, spec.polars_tables(case, ["t1"]))
            else:
                eng = engines.SQLiteEngine("sqlite")
                try:
                    eng.load(pt)
                    results[engine] = eng.run(ops)
                finally:
                    eng.close()
        except engines.EngineError as err:
            if engine == "polars":
                info["polars_raised"] = err.bucket()
                continue
            return (
                Failure(
                    f"{engine} raises on a window specification the catalogue marks as supported ({'+'.join(fns)}): {err}",
                    {"kind": "raises", "engine": engine, "fns": "+".join(sorted(set(fns))), "bucket": err.bucket()},
                ),
                info,
            )
    for engine, (gcols, grows) in results.items():
        if set(gcols) != set(ecols) or len(grows) != len(erows):
            return (
                Failure(
                    f"{engine}: windowed extend returned columns {gcols} / {len(grows)} rows, expected {ecols} / {len(erows)} rows",
                    {"kind": "shape", "engine": engine},
                ),
                info,
            )
        aligned = [[r[gcols.index(c)] for c in ecols] for r in grows]
        miss = match_multiset(erows, aligned)
        if miss is not None:
            bad = "+".join(sorted(set(fns)))
            return (
                Failure(
                    f"{engine}: no result row carries the reference values {miss} for {bad} over partition_by={nd['partition_by']} "
                    f"order_by={nd.get('order_by')} reverse={nd.get('reverse')}",
                    {"kind": "values", "engine": engine, "fns": bad, "cumcount": "cumcount" in fns},
                    {"columns": ecols, "expected": erows[:10], "got": aligned[:10]},
                ),
                info,
            )
    info["engines"] = sorted(results)
    return None, info


def replay(check_name, case):
    f, _ = check(case)
    return f


def nontrivial(case):
    nd = case["nodes"][case["root"]]
    t = case["tables"]["t1"]
    cols = [e[0] for e in t["cols"]]
    pb = nd["partition_by"] if isinstance(nd["partition_by"], list) else []
    pidx = [cols.index(c) for c in pb]
    sizes = {}
    for r in t["rows"]:
        k = tuple(repr(r[i]) for i in pidx)
        sizes[k] = sizes.get(k, 0) + 1
    multi = any(v >= 2 for v in sizes.values())
    return multi and (len(sizes) >= 2 or bool(nd.get("reverse")) or len(nd.get("order_by") or []) >= 2)


def run(ctx):
    ev = ctx.ev
    ev.rule = (
        "one table (0-8 rows, 0-2 NULL-able partition columns, 1-3 order columns + unique row id, any subset reversed, NULL-able and "
        "non-null value columns) x one windowed extend with 1-3 functions from the ordered set {cumsum,cummax,cummin,cumprod,_row_number,"
        "shift(+-k),rank,first,last,ffill,bfill} or the unordered set {sum,mean,min,max,count,size,_size,median,nunique,std,var}; compared "
        "row by row with vp.ref.window_values; non-trivial = a partition with >=2 rows AND (>=2 partitions or a reversed column or a "
        "multi-column order); distinct = SHA-1 of the case JSON"
    )
    ev.assumptions = [
        "order columns are non-null and end in a unique id, so the order is total (NULL placement in orderings is engine specific)",
        "cumulative functions, rank, first, last get non-null arguments (their NULL behaviour is not documented); rank is applied to distinct values",
        "SQLite is judged only for functions the catalogue marks 'y' for SQLiteModel; cumcount is not generated (recorded finding F53 of C05)",
        "sum over no non-null values may be 0 or NULL",
    ]
    ev.trusted_base = ["vp.ref.window_values / vp.ref.agg", "vp.cmp"]
    ctx.probe_findings(replay)

    def oracle(case):
        f, info = check(case)
        nd = case["nodes"][case["root"]]
        fs = ["fn_" + e[1] for _, e in nd["ops"]]
        fs.append("ordered" if nd.get("order_by") else "unordered")
        if nd.get("reverse"):
            fs.append("reverse")
        if isinstance(nd["partition_by"], list):
            fs.append(f"partition_cols_{len(nd['partition_by'])}")
        fs += ["engine_" + e for e in info.get("engines", [])]
        ev.note(case, nontrivial(case), sorted(set(fs)), sample={"table": case["tables"]["t1"], "extend": nd})
        for k in ("builder_rejected", "polars_raised"):
            if k in info:
                ev.count(k if k == "builder_rejected" else f"polars_raised:{info[k]}")
        return f

    ctx.campaign("main", window_cases(), oracle, max_examples=ctx.n(1200, 80000))
