"""C02 — PostgreSQL-dialect SQL computes the same table as Pandas.

PARTIAL: there is no PostgreSQL server in this sandbox. The SQL text produced by PostgreSQLModel is executed
on SQLite 3.40 (which understands it for the operator fragment: double-quoted identifiers, '' strings, WITH,
native RIGHT/FULL JOIN, COALESCE) with shims for LN / STDDEV_SAMP / VAR_SAMP. This decides the *translation*
half of the property (the half the repository controls); engine-dependent meaning is not decided here.
A "no such function"/syntax error from the surrogate is counted `surrogate_cannot_run`, never a violation.
"""

from __future__ import annotations

from .. import gen, spec
from ..common import Failure
from . import c01

PID = "C02"

BASE_CFG = {"engines": ("pandas", "pg"), "max_nodes": 7, "n_tables": (1, 2), "final_order": 0.3,
            "shape": "diamond", "shape_prob": 0.5, "reuse_bias": True, "narrowing_tails": True,
            "extend_then_ordered_window_prob": 0.1, "extend_then_partition_window_prob": 0.1, "concat_with_source_prob": 0.12, "concat_perm_prob": 0.08, "order_twin_prob": 0.4, "float_divide_prob": 0.9,
            "ops": {"natural_join": 7}, "diffname_prob": 0.3,
            "extra_jointypes": ["right", "right", "full"]}  # the native RIGHT / FULL JOIN text is PostgreSQL's own path


def fmt_options(cte: bool):
    from data_algebra.sql_format_options import SQLFormatOptions

    return SQLFormatOptions(use_with=True, use_cte_elim=cte, annotate=False)


def differential(case):
    """Both the default options and WITH + CTE elimination (which only PostgreSQL-like dialects enable)."""
    f, info = c01.differential(case, "pg")
    if f is not None:
        f.sig["options"] = "default"
        return f, info
    f2, info2 = c01.differential(case, "pg", fmt=fmt_options(True))
    if f2 is not None:
        f2.sig["options"] = "cte_elim"
        f2.msg = "[use_cte_elim=True] " + f2.msg
    info.update(info2)
    return f2, info


def uses_pg_only_path(case, fs) -> bool:
    return "join_right" in fs or "join_full" in fs or "dag_reuse" in fs or "table_reuse" in fs


def replay(check, case):
    f, _ = differential(case)
    return f


def run(ctx):
    ev = ctx.ev
    ev.rule = (
        "random well-typed operator DAGs (vp.gen.programs) evaluated by Pandas and by PostgreSQLModel.to_sql() executed on "
        "the SQLite-3.40 surrogate, with default options and with use_cte_elim=True; non-trivial = C01's rule; "
        "`pg_only_path` counts cases using a path SQLite's own dialect never takes (native RIGHT/FULL JOIN or a shared "
        "sub-pipeline eligible for CTE elimination); distinct = SHA-1 of the case JSON"
    )
    ev.assumptions = [
        "NO PostgreSQL server exists in the sandbox: PostgreSQL-dialect SQL text is executed on SQLite 3.40.1 as a stand-in; "
        "engine-dependent semantics (integer division typing, boolean strictness, NULLS FIRST/LAST defaults, numeric types) are NOT decided",
        "shims registered on the surrogate: LN, STDDEV_SAMP, VAR_SAMP",
        "method fragment as in C01",
    ]
    ev.trusted_base = ["SQLite 3.40.1 as executor of PostgreSQL-dialect text", "vp.cmp comparator", "vp.schema type tracker"]
    ctx.probe_findings(replay)
    cfg = dict(BASE_CFG)
    cfg["closed"] = set(ctx.closed)

    def oracle(case):
        f, info = differential(case)
        fs = gen.features(case)
        nt = c01.nontrivial(case, fs)
        if nt and uses_pg_only_path(case, fs):
            fs = fs + ["pg_only_path"]
        ev.note(case, nt, fs, sample={"program": c01._sample(case)})
        for k in ("builder_rejected", "both_raised", "surrogate_cannot_run"):
            if k in info:
                ev.count(k)
        if case.get("excluded_by_construction"):
            ev.count("excluded_by_construction", case["excluded_by_construction"])
        return f

    ctx.campaign("main", gen.programs(cfg), oracle, max_examples=ctx.n(600, 32000))
    # expression focus: short chains of row-wise extends / filters, i.e. many scalar expressions per program - the
    # PostgreSQL model has formatters of its own (%/%, logarithms, string functions) that only expressions reach
    ecfg = dict(cfg)
    ecfg.update({"shape": None, "concat_perm_prob": 0, "max_nodes": 4, "min_steps": 2, "n_tables": (1, 1), "final_order": 0.1,
                 "ops": {"extend": 12, "select_rows": 4, "project": 1, "window": 1, "natural_join": 0, "concat_rows": 0, "convert_records": 0,
                         "ordered_window": 0, "order_rows": 0, "drop_columns": 0.5, "select_columns": 0.5, "rename_columns": 0, "map_columns": 0}})
    ctx.campaign("expr_focus", gen.programs(ecfg), oracle, max_examples=ctx.n(400, 16000))
