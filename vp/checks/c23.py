"""C23 — connected_components labels edge i with the least vertex of its connected component.

Reference: an independent union-find (path halving, no size heuristic) over the *values actually handed
to the code under test* (after conversion to numpy / Pandas), so that conversions such as int -> float64
cannot make reference and implementation see different graphs.  Vertex identity is Python ==/hash (so 2
and 2.0 are one vertex), the least vertex is `min` over the component.

Routes: plain lists, tuples, numpy arrays, Pandas Series (default and shuffled index), and the two
pipeline spellings `f.co_equalizer(g)` / `connected_components(f, g)` evaluated on Pandas.
"""

from __future__ import annotations

from hypothesis import strategies as st

from ..common import Failure

PID = "C23"
SHARDABLE = True

DIRECT_ROUTES = ["list", "tuple_seq", "numpy", "series", "series_idx"]
PIPE_ROUTES = ["method", "function", "method_idx", "function_extra"]
PIPE_KINDS = ["int", "str", "float"]
KINDS = ["int", "str", "float", "tuple", "num"]


# ---- reference ----------------------------------------------------------------------------------


def reference(f, g):
    """(labels, component root per edge, merged_two_nonsingletons, n_components, max_component_size)."""
    ids = {}
    verts = []
    for v in list(f) + list(g):
        if v not in ids:
            ids[v] = len(verts)
            verts.append(v)
    parent = list(range(len(verts)))
    size = [1] * len(verts)

    def find(a):
        while parent[a] != a:
            parent[a] = parent[parent[a]]
            a = parent[a]
        return a

    big_merge = False
    for a, b in zip(f, g):
        ra, rb = find(ids[a]), find(ids[b])
        if ra != rb:
            if size[ra] >= 2 and size[rb] >= 2:
                big_merge = True
            parent[rb] = ra
            size[ra] += size[rb]
    least = {}
    for v in verts:
        r = find(ids[v])
        if r not in least or v < least[r]:
            least[r] = v
    roots = [find(ids[a]) for a in f]
    labels = [least[r] for r in roots]
    mx = max([size[find(i)] for i in range(len(verts))], default=0)
    return labels, roots, big_merge, len(least), mx


# ---- building the real inputs -------------------------------------------------------------------


def _val(kind, x):
    if kind == "tuple":
        return tuple(x)
    return x


def _build(case):
    """-> (f_obj, g_obj, runner) where runner() returns the list of labels from the code under test."""
    import numpy
    import pandas

    kind, route = case["kind"], case["route"]
    f = [_val(kind, x) for x in case["f"]]
    g = [_val(kind, x) for x in case["g"]]
    n = len(f)
    if len(g) != n:
        raise ValueError("malformed case: len(f) != len(g)")

    def np_arr(xs):
        if kind == "tuple":
            a = numpy.empty(len(xs), dtype=object)
            for i, x in enumerate(xs):
                a[i] = x
            return a
        if kind == "str":
            return numpy.asarray(xs) if len(xs) else numpy.asarray([], dtype=object)  # '<U' array
        if kind == "int":
            return numpy.asarray(xs, dtype="int64")
        return numpy.asarray(xs, dtype="float64")

    def series(xs, index=None):
        if kind == "tuple":
            return pandas.Series(np_arr(xs), index=index, dtype=object)
        if kind == "str":
            return pandas.Series(xs, index=index, dtype="str")
        if kind == "int":
            return pandas.Series(xs, index=index, dtype="int64")
        return pandas.Series(xs, index=index, dtype="float64")

    # a deterministic non-trivial index: reversed, non-contiguous labels
    idx = [3 * (n - i) + 1 for i in range(n)]

    if route in DIRECT_ROUTES:
        from data_algebra.connected_components import connected_components

        if route == "list":
            fo, go = list(f), list(g)
        elif route == "tuple_seq":
            fo, go = tuple(f), tuple(g)
        elif route == "numpy":
            fo, go = np_arr(f), np_arr(g)
        elif route == "series":
            fo, go = series(f), series(g)
        else:
            fo, go = series(f, idx), series(g, idx)
        seen_f, seen_g = list(fo), list(go)

        def runner():
            return list(connected_components(fo, go))

        return seen_f, seen_g, runner

    if route in PIPE_ROUTES:
        if kind not in PIPE_KINDS:
            raise ValueError("malformed case: pipeline route needs int/str/float vertices")
        from data_algebra.data_ops import TableDescription

        cols = {"f": series(f), "g": series(g)}
        names = ["f", "g"]
        if route == "function_extra":
            cols = {"z": series(f), "f": cols["f"], "k": pandas.Series(range(n), dtype="int64"), "g": cols["g"]}
            names = ["z", "f", "k", "g"]
        d = pandas.DataFrame(cols)
        if route == "method_idx":
            d.index = idx
        expr = "f.co_equalizer(g)" if route.startswith("method") else "connected_components(f, g)"
        ops = TableDescription(table_name="d", column_names=names).extend({"c": expr})
        seen_f, seen_g = d["f"].tolist(), d["g"].tolist()

        def runner():
            res = ops.transform(d)
            if list(res.columns) != names + ["c"]:
                raise _Shape(f"result columns {list(res.columns)!r}")
            if res.shape[0] != n:
                raise _Shape(f"result has {res.shape[0]} rows for {n} edges")
            if res["f"].tolist() != seen_f or res["g"].tolist() != seen_g:
                raise _Shape("pipeline changed or re-ordered the edge columns")
            return res["c"].tolist()

        return seen_f, seen_g, runner
    raise ValueError(f"unknown route {route!r}")


class _Shape(Exception):
    pass


def _eq(a, b) -> bool:
    try:
        return bool(a == b)
    except Exception:
        return False


def check_case(case, note=None) -> "Failure | None":
    kind, route = case["kind"], case["route"]
    seen_f, seen_g, runner = _build(case)
    n = len(seen_f)
    exp, roots, big_merge, ncomp, mx = reference(seen_f, seen_g)
    if note is not None:
        feats = [f"kind:{kind}", f"route:{route}"]
        if any(_eq(a, b) for a, b in zip(seen_f, seen_g)):
            feats.append("self_loop")
        pairs = set()
        rep = False
        for a, b in zip(seen_f, seen_g):
            if (a, b) in pairs or (b, a) in pairs:
                rep = True
            pairs.add((a, b))
        if rep:
            feats.append("repeated_edge")
        if big_merge:
            feats.append("merge_of_two_nonsingletons")
        if ncomp >= 2:
            feats.append("several_components")
        if n == 0:
            feats.append("empty")
        if mx >= 8:
            feats.append("component>=8")
        note(case, bool(big_merge and mx >= 3), feats)
    sig = {"route": route, "kind_of_vertices": kind}
    try:
        got = runner()
    except _Shape as e:
        return Failure(f"[{route}] {e}", dict(sig, kind="shape"))
    except Exception as e:  # the property quantifies over all edge lists: no rejection is allowed here
        return Failure(
            f"[{route}] raised {type(e).__name__}: {e} on f={seen_f!r} g={seen_g!r}",
            dict(sig, kind="raised", exc=type(e).__name__),
        )
    if len(got) != n:
        return Failure(f"[{route}] {len(got)} labels for {n} edges", dict(sig, kind="length"))
    for i in range(n):
        if not _eq(got[i], exp[i]):
            return Failure(
                f"[{route}] edge {i} ({seen_f[i]!r},{seen_g[i]!r}) labelled {got[i]!r}, least vertex of its "
                f"component is {exp[i]!r}; f={seen_f!r} g={seen_g!r} got={got!r}",
                dict(sig, kind="label"),
                {"expected": exp, "got": got},
            )
    # second clause, checked on its own: same label <=> same component
    for i in range(n):
        for j in range(i + 1, n):
            if _eq(got[i], got[j]) != (roots[i] == roots[j]):
                return Failure(
                    f"[{route}] edges {i},{j}: same label={_eq(got[i], got[j])} but same component={roots[i] == roots[j]}",
                    dict(sig, kind="partition"),
                )
    return None


# ---- strategies ---------------------------------------------------------------------------------

_small_int = st.integers(-6, 14)
_int = st.one_of(_small_int, _small_int, st.integers(-(2**62), 2**62))
_str = st.text(alphabet="abAB01 é_", max_size=3)
_float = st.one_of(
    st.sampled_from([0.0, -0.0, 0.5, -0.5, 1.0, 2.0, 1e300, -1e300, 5e-324, float("inf"), float("-inf")]),
    st.floats(allow_nan=False, allow_infinity=True, width=64),
    st.integers(-5, 5).map(lambda i: i / 4.0),
)
_tuple = st.one_of(
    st.lists(st.integers(-2, 3), max_size=3),
)
_num = st.one_of(st.integers(-4, 6), st.integers(-8, 12).map(lambda i: i / 2.0))


_EL = {"int": _int, "str": _str, "float": _float, "tuple": _tuple, "num": _num}
_IDX = st.integers(0, 2**16)
_IDXPAIR = st.tuples(_IDX, _IDX)
_N_EDGES = st.integers(0, 30)
_N_POOL = st.integers(1, 30)
_N_TREE = st.integers(3, 24)
_SHAPE = st.sampled_from(["random", "random", "tree", "tree", "chain"])
_CUTS = st.one_of(st.just([]), st.lists(_IDX, min_size=1, max_size=6))
_SPARE = {"int": 99, "str": "zz", "float": 99.5, "tuple": [9], "num": 99}


def _dedupe(kind, xs):
    """Drop repeated pool values (cheaper than a uniqueness filter inside Hypothesis); for the mixed kind 2 and
    2.0 both stay (they are one vertex for the code under test and for the reference)."""
    seen, out = set(), []
    for x in xs:
        k = tuple(x) if kind == "tuple" else ((type(x).__name__, x) if kind == "num" else x)
        if k not in seen:
            seen.add(k)
            out.append(x)
    return out


def _spread(options):
    """sampled_from with less pull towards the first option (Hypothesis favours 'simple' = first)."""
    k = len(options)
    return st.integers(0, 997 * k - 1).map(lambda i: options[i % k])


def _fixed_list(el, n):
    return st.lists(el, min_size=n, max_size=n)


@st.composite
def _case(draw, routes_st, kinds_st):
    route = draw(routes_st)  # drawn first: late draws are the ones Hypothesis most often zero-fills
    kind = draw(kinds_st)
    shape = draw(_SHAPE)
    if shape == "random":
        pool = _dedupe(kind, draw(_fixed_list(_EL[kind], draw(_N_POOL))))
        ix = st.integers(0, len(pool) - 1)
        es = draw(_fixed_list(st.tuples(ix, ix), draw(_N_EDGES)))
    else:
        # spanning tree (or chain) over the pool, some tree edges optionally cut, a few extra edges (repeats,
        # self loops, cross links), then the edges in a drawn order with drawn orientation
        pool = _dedupe(kind, draw(_fixed_list(_EL[kind], draw(_N_TREE))))
        n = len(pool)
        if n < 2:
            pool = pool + [_SPARE[kind]]  # _SPARE values lie outside the element strategies
            n = 2
        if shape == "chain":
            parents = list(range(n - 1))
        else:
            parents = [p % (i + 1) for i, p in enumerate(draw(_fixed_list(_IDX, n - 1)))]
        cut = set(c % (n - 1) for c in draw(_CUTS))
        es = [(i + 1, parents[i]) for i in range(n - 1) if i not in cut]
        ix = st.integers(0, n - 1)
        es += draw(st.lists(st.tuples(ix, ix), max_size=4))
        es = draw(st.permutations(es))
        flips = draw(_fixed_list(st.booleans(), len(es)))
        es = [(b, a) if fl else (a, b) for (a, b), fl in zip(es, flips)]
    return {"kind": kind, "route": route, "f": [pool[a] for a, _ in es], "g": [pool[b] for _, b in es]}


# ---- entry points -------------------------------------------------------------------------------


def replay(check, case):
    return check_case(case)


def run(ctx):
    ev = ctx.ev
    ev.rule = (
        "edge lists (0-30 edges) over one vertex kind per list (ints incl. |v|~2^62, short strings, finite/infinite "
        "floats, int tuples, mixed int/float with 2 == 2.0) drawn as (a) random pairs over a pool of <= 30 vertices, "
        "(b) random spanning trees / chains over a shuffled pool of 3-24 vertices with edges in drawn order and "
        "orientation, optional cuts and extra repeat/self-loop/cross edges; each list goes through one route: list, "
        "tuple, numpy array, Pandas Series (default / shuffled index), or the pipeline methods f.co_equalizer(g) / "
        "connected_components(f, g) on Pandas. non-trivial = while processing the edges in order some edge joins two "
        "components that both already have >= 2 vertices (so the result has a component of >= 3 vertices built by "
        "merging non-singletons). distinct = SHA-1 of (kind, route, f, g)."
    )
    ev.assumptions = [
        "vertices within one edge list are mutually orderable and have consistent ==/hash; NaN and None are never vertices",
        "vertex identity is Python equality: 2 and 2.0 (or 0.0 and -0.0) are one vertex and a label equal (==) to the least vertex is accepted",
        "the reference runs on the values as seen by the code under test (after numpy/Pandas conversion)",
        "pipeline routes: Pandas only, ints/strings/floats, no partition_by (windowed use is rejected by the builder: "
        "'in windowed situations only simple operators are allowed'); SQL/Polars translation is out of scope of C23",
        "inputs are re-iterable sequences (list/tuple/ndarray/Series) as the docstring says; one-shot iterators are not tried",
    ]
    ev.trusted_base = ["reference union-find in vp/checks/c23.py (45 lines)", "pandas/numpy containers used to carry the inputs"]
    ctx.probe_findings(replay)

    def oracle(case):
        return check_case(case, note=ev.note)

    ctx.campaign("direct", _case(_spread(DIRECT_ROUTES), _spread(KINDS)), oracle, max_examples=ctx.n(2300, 1_350_000))
    ctx.campaign("pipeline", _case(_spread(PIPE_ROUTES), _spread(PIPE_KINDS)), oracle, max_examples=ctx.n(700, 250_000))
