"""C26 — the builder rejects ill-formed steps when the pipeline is built (labelled-by-construction accept/reject).

prefix (random program, ending in a chosen *tail kind*, incl. tails the builder simplifies away) + one step drawn
from a rule catalogue; each rule has a VIOLATING and a CONFORMING constructor. Violating => the builder call must
raise at build time; conforming => it must return a pipeline whose column set is the predicted one.
Cells (rule x tail kind x label) are all visited; failures are collected per cell.
"""

from __future__ import annotations

from hypothesis import strategies as st

from .. import gen, schema, spec
from ..common import Failure
from ..schema import NUM

PID = "C26"

TAILS = ["none", "order_rows_nolimit", "order_rows_limit", "select_columns", "drop_columns", "extend", "select_rows", "project"]
RULES = [
    "unknown_extend", "unknown_select_rows", "unknown_group_by", "unknown_project_arg", "unknown_partition_by", "unknown_order_by",
    "unknown_select_columns", "unknown_drop_columns", "unknown_rename", "unknown_order_rows", "unknown_join_key_left",
    "unknown_join_key_right", "change_partition_col", "change_order_col", "produced_and_used", "non_agg_project",
    "complex_project", "non_agg_window", "complex_window", "join_check_common", "concat_different_columns",
]


def draw_cell(draw, rule, tail, violating, closed=()):
    cfg = {"n_tables": (1, 2), "final_order": 0.0, "max_rows": 2, "ops": {"convert_records": 0, "concat_rows": 0.5}, "closed": set(closed)}
    g = gen.G(draw, cfg)
    b = gen.Builder(g, cfg)
    cur = b.grow(b.heads[0], g.pick([0, 1, 1, 2, 3]), wander=0)
    # force the tail kind
    sch = b.schemas[cur]
    removed = []  # columns that existed earlier and are gone now (best "unknown" names)
    nd = None
    if tail == "order_rows_nolimit":
        nn = [c for c in sch.names() if not sch.cols[c]["zn"]]
        nd = {"op": "order_rows", "src": cur, "cols": g.subset(nn, lo=1, hi=2), "reverse": [], "limit": None}
    elif tail == "order_rows_limit":
        nd = gen.step_order_rows(g, sch)
        if nd is not None:
            nd["limit"] = nd.get("limit") or 2
            nd["src"] = cur
    elif tail == "select_columns":
        nd = gen.step_select_columns(g, sch)
        if nd is not None:
            nd["src"] = cur
            removed = [c for c in sch.names() if c not in nd["cols"]]
    elif tail == "drop_columns":
        nd = gen.step_drop_columns(g, sch)
        if nd is not None:
            nd["src"] = cur
            removed = list(nd["cols"])
    elif tail == "extend":
        nd = gen.step_extend(g, sch)
        if nd is not None:
            nd["src"] = cur
    elif tail == "select_rows":
        nd = gen.step_select_rows(g, sch)
        if nd is not None:
            nd["src"] = cur
    elif tail == "project":
        nd = gen.step_project(g, sch)
        if nd is not None:
            nd["src"] = cur
            keep = set(nd.get("group_by") or []) | {k for k, _ in nd["ops"]}
            removed = [c for c in sch.names() if c not in keep]
    if nd is not None:
        new = b.add(nd)
        if new is not None:
            cur = new
        else:
            removed = []
    sch = b.schemas[cur]
    case = b.finish(cur)
    case["root"] = cur
    case["expr_mode"] = "text"
    names = sch.names()
    unknown = g.pick(removed) if removed and g.boolean(0.7) else "zz_missing"
    num = sch.of_type(*NUM)
    anyc = [c for c in names if not sch.cols[c]["zn"]]
    keyc = [c for c in anyc if sch.cols[c]["type"] in ("int", "str")]
    other_tables = sorted(case["tables"].keys())
    step = None

    def need(x):
        return x if x else None

    V = violating
    if rule == "unknown_extend":
        src = unknown if V else (g.pick(num) if num else None)
        step = None if src is None else {"op": "extend", "ops": [["n", ["call", "+", [["col", src], ["lit", 1]]]]]}
    elif rule == "unknown_select_rows":
        src = unknown if V else (g.pick(num) if num else None)
        step = None if src is None else {"op": "select_rows", "expr": ["call", ">", [["col", src], ["lit", 0]]]}
    elif rule == "unknown_group_by":
        k = unknown if V else (g.pick(anyc) if anyc else None)
        step = None if k is None else {"op": "project", "ops": [["fresh_n", ["call", "_size", []]]], "group_by": [k]}
    elif rule == "unknown_project_arg":
        src = unknown if V else (g.pick(num) if num else None)
        step = None if src is None else {"op": "project", "ops": [["m", ["call", "max", [["col", src]]]]], "group_by": []}
    elif rule == "unknown_partition_by":
        k = unknown if V else (g.pick(anyc) if anyc else None)
        step = None if (k is None or not num) else {"op": "extend", "ops": [["m", ["call", "max", [["col", g.pick([c for c in num if c != k] or num)]]]]], "partition_by": [k]}
        if step and step["ops"][0][1][2][0][1] == k:
            step = None
    elif rule == "unknown_order_by":
        k = unknown if V else (g.pick(anyc) if anyc else None)
        step = None if k is None else {"op": "extend", "ops": [["m", ["call", "_row_number", []]]], "partition_by": 1, "order_by": [k]}
    elif rule == "unknown_select_columns":
        keep = g.subset(names, lo=1, hi=2)
        step = {"op": "select_columns", "cols": (keep + [unknown]) if V else keep}
    elif rule == "unknown_drop_columns":
        if len(names) >= 2 or V:
            step = {"op": "drop_columns", "cols": [unknown] if V else [g.pick(names)]}
    elif rule == "unknown_rename":
        step = {"op": "rename_columns", "mapping": [["brand_new", unknown if V else g.pick(names)]]}
    elif rule == "unknown_order_rows":
        k = unknown if V else (g.pick(anyc) if anyc else None)
        step = None if k is None else {"op": "order_rows", "cols": [k], "reverse": [], "limit": None}
    elif rule in ("unknown_join_key_left", "unknown_join_key_right"):
        ot = g.pick(other_tables)
        ocols = [e[0] for e in case["tables"][ot]["cols"]]
        common = [c for c in keyc if c in ocols]
        if V:
            if rule == "unknown_join_key_left":
                k = next((c for c in ocols if c not in names), None)
            else:
                k = next((c for c in names if c not in ocols), None)
            step = None if k is None else {"op": "natural_join", "other": ot, "on": [[k, k]], "jointype": "left"}
        else:
            step = None if not common else {"op": "natural_join", "other": ot, "on": [[common[0], common[0]]], "jointype": "left"}
    elif rule == "change_partition_col":
        if keyc and num:
            k = g.pick(keyc)
            arg = g.pick(num)
            target = k if V else "brand_new"
            step = {"op": "extend", "ops": [[target, ["call", "max", [["col", arg]]]]], "partition_by": [k]}
    elif rule == "change_order_col":
        if anyc:
            k = g.pick(anyc)
            target = k if V else "brand_new"
            step = {"op": "extend", "ops": [[target, ["call", "_row_number", []]]], "partition_by": 1, "order_by": [k]}
    elif rule == "produced_and_used":
        if num:
            x = g.pick(num)
            form = g.pick(["fresh_then_read", "overwrite_then_read", "read_then_overwrite", "project_overwrite_then_read", "project_read_then_overwrite"])
            others = [c for c in num if c != x]
            if form == "fresh_then_read" or not others:
                second = ["col", "fresh_a"] if V else ["col", x]
                step = {"op": "extend", "ops": [["fresh_a", ["call", "+", [["col", x], ["lit", 1]]]], ["fresh_b", ["call", "+", [second, ["lit", 2]]]]]}
            else:
                # x is overwritten AND read by another assignment of the same step (in either order); conforming twin:
                # the other assignment reads a different column (a self-update x := f(x) alone is allowed)
                y = g.pick(others)
                rd = ["col", x] if V else ["col", y]
                if form.startswith("project"):
                    upd = [x, ["call", "min", [["col", x]]]]
                    oth = ["fresh_b", ["call", "max", [rd]]]
                    step = {"op": "project", "ops": [upd, oth] if "overwrite_then_read" in form else [oth, upd], "group_by": []}
                else:
                    upd = [x, ["call", "*", [["col", x], ["lit", 2]]]]
                    oth = ["fresh_b", ["call", "+", [rd, ["lit", 1]]]]
                    step = {"op": "extend", "ops": [upd, oth] if form == "overwrite_then_read" else [oth, upd]}
    elif rule in ("non_agg_project", "complex_project", "non_agg_window", "complex_window"):
        if num and (rule.endswith("project") or keyc):
            x = g.pick(num)
            if not V:
                e = ["call", "max", [["col", x]]]
            elif rule.startswith("non_agg"):
                form = "infix" if ("non_agg_method_form" in g.closed or g.boolean()) else "method"
                if "non_agg_method_form" in g.closed:
                    g.excluded += 1
                e = ["call", "+", [["col", x], ["lit", 1]]] if form == "infix" else ["call", "abs", [["col", x]]]
            else:
                e = ["call", "max", [["call", "+", [["col", x], ["lit", 1]]]]]
            if rule.endswith("project"):
                step = {"op": "project", "ops": [["m", e]], "group_by": []}
            else:
                k = g.pick([c for c in keyc if c != x] or keyc)
                if k != x:
                    step = {"op": "extend", "ops": [["m", e]], "partition_by": [k]}
    elif rule == "join_check_common":
        ot = g.pick(other_tables)
        ocols = [e[0] for e in case["tables"][ot]["cols"]]
        common = [c for c in names if c in ocols]
        ckeys = [c for c in common if c in keyc]
        if ckeys and (len(common) >= 2 if V else True):
            on = [ckeys[0]] if V else list(common)
            if V or all(c in keyc or True for c in common):
                step = {"op": "natural_join", "other": ot, "on": [[c, c] for c in on], "jointype": "inner", "check": g.pick([True, "by"])}
    elif rule == "concat_different_columns":
        ot = g.pick(other_tables)
        ocols = [e[0] for e in case["tables"][ot]["cols"]]
        same = set(ocols) == set(names)
        if V and not same:
            step = {"op": "concat_rows", "other": ot}
        elif not V:
            step = {"op": "concat_rows", "other": "__self__"}
    if step is None:
        return None
    return {"case": case, "step": step, "rule": rule, "tail": tail, "violating": violating}


def apply_step(cell):
    """Build the prefix, then apply the step through the public builder. Returns (ops|None, exception|None)."""
    from data_algebra.view_representations import TableDescription

    case, step = cell["case"], dict(cell["step"])
    prefix = spec.build(case)
    try:
        if step["op"] == "natural_join":
            ot = step["other"]
            other = TableDescription(table_name=ot, column_names=[e[0] for e in case["tables"][ot]["cols"]])
            ck = {"check_all_common_keys_in_by": True} if step.get("check") == "by" else {"check_all_common_keys_in_equi_spec": bool(step.get("check"))}
            res = prefix.natural_join(b=other, on=[a for a, _ in step["on"]], jointype=step["jointype"], **ck)
        elif step["op"] == "concat_rows":
            if step["other"] == "__self__":
                other = prefix
            else:
                ot = step["other"]
                other = TableDescription(table_name=ot, column_names=[e[0] for e in case["tables"][ot]["cols"]])
            res = prefix.concat_rows(b=other, id_column="src_id")
        else:
            step["src"] = 0
            res = spec.build_node(step, {0: prefix}, case, "text")
        return res, None
    except Exception as e:  # any exception type counts as a build-time rejection
        return None, e


def predicted_columns(cell):
    case, step = cell["case"], cell["step"]
    cols = schema.infer(case)[case["root"]].names()
    op = step["op"]
    if op == "extend":
        return cols + [k for k, _ in step["ops"] if k not in cols]
    if op == "project":
        return list(step.get("group_by") or []) + [k for k, _ in step["ops"]]
    if op in ("select_rows", "order_rows"):
        return cols
    if op == "select_columns":
        return list(step["cols"])
    if op == "drop_columns":
        return [c for c in cols if c not in step["cols"]]
    if op == "rename_columns":
        rev = {old: new for new, old in step["mapping"]}
        return [rev.get(c, c) for c in cols]
    if op == "natural_join":
        oc = [e[0] for e in case["tables"][step["other"]]["cols"]]
        return cols + [c for c in oc if c not in cols]
    if op == "concat_rows":
        return cols + ["src_id"]
    raise ValueError(op)


def _form(step):
    """'method' when the step's first assignment is a row-wise method call such as x.abs() (recorded finding)."""
    try:
        e = step["ops"][0][1]
        return "method" if e[0] == "call" and e[1] == "abs" else "other"
    except Exception:
        return "other"


def check(cell):
    info = {}
    try:
        spec.build(cell["case"])
    except Exception as e:
        info["prefix_rejected"] = str(e)
        return None, info
    res, exc = apply_step(cell)
    key = {"rule": cell["rule"], "tail": cell["tail"], "label": "violating" if cell["violating"] else "conforming"}
    if cell["violating"]:
        if exc is None:
            return (
                Failure(
                    f"rule {cell['rule']} (prefix tail {cell['tail']}): the builder ACCEPTED an ill-formed step {cell['step']}",
                    {"kind": "accepted_ill_formed", **key, "form": _form(cell["step"])},
                    {"pipeline": res.to_python(pretty=False) if res is not None else None},
                ),
                info,
            )
        info["rejected_with"] = type(exc).__name__
        return None, info
    if exc is not None:
        return (
            Failure(
                f"rule {cell['rule']} (prefix tail {cell['tail']}): the builder REJECTED a conforming step {cell['step']}: {type(exc).__name__}: {exc}",
                {"kind": "rejected_conforming", **key},
            ),
            info,
        )
    want = predicted_columns(cell)
    if set(res.column_names) != set(want):
        return (
            Failure(
                f"rule {cell['rule']}: accepted step yields columns {list(res.column_names)}, predicted {want}",
                {"kind": "columns", **key},
            ),
            info,
        )
    return None, info


def replay(check_name, cell):
    f, _ = check(cell)
    return f


def run(ctx):
    ev = ctx.ev
    ev.rule = (
        f"exhaustive outer enumeration of {len(RULES)} rules x {len(TAILS)} prefix tail kinds x (violating, conforming); inside each cell "
        "Hypothesis draws a random prefix program ending in that tail kind and the rule's step; non-trivial = prefix with >=1 operator "
        "node; distinct = SHA-1 of the cell case. 'Unknown' names prefer columns that existed earlier in the prefix and were removed."
    )
    ev.assumptions = [
        "any exception type raised by the builder call counts as a build-time rejection",
        "rules are exactly those listed in the property text (unknown column, changing a partition/ordering column, produced-and-used, "
        "non-aggregating / too complex window or project expression, join keys missing, requested common-key check, concat of different columns)",
    ]
    ev.exhaustive = False
    ctx.probe_findings(replay)
    per_cell = ctx.n(6, 16 * 60)
    cells_seen = 0
    for rule in RULES:
        for tail in TAILS:
            for violating in (True, False):
                name = f"{rule}-{tail}-{'v' if violating else 'c'}"
                strat = st.composite(lambda draw, r=rule, t=tail, v=violating: draw_cell(draw, r, t, v, ctx.closed))()

                def oracle(cell, name=name):
                    if cell is None:
                        ctx.ev.count("cell_not_constructible")
                        return None
                    f, info = check(cell)
                    nt = gen.n_ops(cell["case"]) >= 1
                    simpl = cell["tail"] in ("order_rows_nolimit", "select_columns", "drop_columns", "extend")
                    ev.note(cell, nt, ["rule_" + cell["rule"], "tail_" + cell["tail"], "violating" if cell["violating"] else "conforming"] + (["simplifiable_tail"] if simpl else []),
                            sample={"rule": cell["rule"], "tail": cell["tail"], "violating": cell["violating"], "step": cell["step"]})
                    if "prefix_rejected" in info:
                        ev.count("prefix_rejected")
                    return f

                ctx.campaign(name, strat, oracle, max_examples=per_cell)
                cells_seen += 1
    ev.extra["cells"] = cells_seen
