"""C13 — expression text is parsed with Python's precedence and meaning.

Two campaigns over expression TEXTS built by a typed, precedence-layered grammar (construction, not
rejection):

* "value": the text is evaluated by the library (`TableDescription(...).extend({'res': text}).eval(...)`
  on one 8-row Pandas frame) and, row by row, by CPython (`eval(text, {}, env_row)`). Rows are compared
  only where CPython's evaluation stays inside the domain on which Python and the DSL define the
  operators identically; that domain is decided by walking *Python's* AST of the text with Python values
  (see `_Dom`), so every intermediate value is inspected, not only the result.
* "roundtrip": t = parse(text); s = str(t.to_python()); t2 = parse(s); require t2.is_equal(t),
  t.is_equal(t2) and str(t2.to_python()) == s. Same grammar plus method-call forms.

A case is plain data: {"text": str, "env": {"x": [8 floats], "y": ..., "z": ..., "a": [8 bools], "b": ...},
"excluded_by_construction": int}.

Generator flags (closed through known findings, or for development through VERIF_C13_CLOSE=flag,flag):
  chained_comparison  no `x < y < z` / `a == b == a` chains are generated
  neg_pow_base        no `(-x) ** 2` / `(-5) ** 2` (parenthesised unary minus as the base of `**`)
"""

from __future__ import annotations

import ast
import math
import operator
import os
import re
import warnings
from fractions import Fraction

from hypothesis import strategies as st

from .. import cmp
from ..common import Failure, HarnessError

PID = "C13"
SHARDABLE = True

NUM_NAMES = ["x", "y", "z"]
BOOL_NAMES = ["a", "b"]
ALL_NAMES = NUM_NAMES + BOOL_NAMES
N_ROWS = 8
MAX_TOKENS = 15  # operands + operators (parentheses and method-call punctuation are not counted)
MAX_DEPTH = 4

INT_LITS = ["0", "1", "2", "3", "4", "5", "7"]
FLOAT_LITS = ["0.5", "0.25", "1.5", "2.0", "2.5", "3.5", ".5", "1e1"]
EXP_INT_LITS = ["0", "1", "2", "2", "3"]
EXP_FRAC_LITS = ["0.5", "1.5", "2.0"]
ADD_OPS = ["+", "-"]
MUL_OPS = ["*", "/", "//", "%"]
CMP_OPS = ["==", "!=", "<", "<=", ">", ">="]
METHODS_1 = ["abs", "floor", "ceil", "sign", "exp", "sqrt", "sin", "round", "is_null", "is_bad"]
METHODS_2 = ["maximum", "minimum", "fmax", "fmin", "coalesce"]
OUTSIDE_FORMS = ["x if a else y", "a & b", "a | b", "x ^ y", "~a", "x << 1", "x in [1, 2]", "x is y", "lambda: x"]

INT_LIMIT = 2**53  # Python ints beyond this are not exactly comparable through int64/float64
NEAR = 1e-6


# =================================================================================================
# library access


def _data_def():
    from data_algebra.expr_rep import ColumnReference

    return {n: ColumnReference(n) for n in ALL_NAMES}


def lib_parse(text):
    from data_algebra.parse_by_lark import parse_by_lark

    return parse_by_lark(text, data_def=_data_def())


def _exc_bucket(e, n=48):
    msg = str(e).split("\n")[0]
    msg = re.sub(r"'[\w.]*'", "'_'", msg)  # variable parts (quoted symbols)
    msg = re.sub(r"\d+", "N", msg)
    return f"{type(e).__name__}: {msg[:n].strip()}"


def _frame(env):
    import pandas

    d = {}
    for n in NUM_NAMES:
        d[n] = [float(v) for v in env[n]]
    for n in BOOL_NAMES:
        d[n] = [bool(v) for v in env[n]]
    return pandas.DataFrame(d)


# =================================================================================================
# the common domain, decided on Python's own AST of the text with Python values


class OutOfDomain(Exception):
    def __init__(self, reason):
        Exception.__init__(self, reason)
        self.reason = reason


_BIN = {
    ast.Add: operator.add,
    ast.Sub: operator.sub,
    ast.Mult: operator.mul,
    ast.Div: operator.truediv,
    ast.FloorDiv: operator.floordiv,
    ast.Mod: operator.mod,
    ast.Pow: operator.pow,
}
_CMP = {
    ast.Eq: operator.eq,
    ast.NotEq: operator.ne,
    ast.Lt: operator.lt,
    ast.LtE: operator.le,
    ast.Gt: operator.gt,
    ast.GtE: operator.ge,
}


def _is_num(v):
    return isinstance(v, (int, float)) and not isinstance(v, bool)


class _Dom:
    """Evaluate Python's AST bottom-up with Python's operators on Python values. Every node yields
    (value, same) where `same` says that numpy and CPython are certain to produce the bit-identical
    value (IEEE + - * / and the shared divmod algorithm; `**` only when the mathematically exact
    result is representable and was returned). Raises OutOfDomain where Python and the DSL do not
    define the operation identically, or where a discontinuous operation sits within rounding
    distance of its discontinuity."""

    def __init__(self, env_row):
        self.env = env_row

    def ev(self, n):
        if isinstance(n, ast.Expression):
            return self.ev(n.body)
        if isinstance(n, ast.Constant):
            if isinstance(n.value, (bool, int, float)):
                return n.value, True
            raise OutOfDomain("constant_type")
        if isinstance(n, ast.Name):
            if n.id not in self.env:
                raise OutOfDomain("unknown_name")
            return self.env[n.id], True
        if isinstance(n, ast.UnaryOp):
            v, s = self.ev(n.operand)
            if isinstance(n.op, ast.Not):
                if not isinstance(v, bool):
                    raise OutOfDomain("not_on_nonbool")
                return (not v), s
            if isinstance(n.op, (ast.USub, ast.UAdd)):
                if not _is_num(v):
                    raise OutOfDomain("arith_on_bool")
                return (-v if isinstance(n.op, ast.USub) else +v), s
            raise OutOfDomain("unsupported_unary")
        if isinstance(n, ast.BoolOp):
            vals = [self.ev(c) for c in n.values]  # all operands, no short circuit: the DSL evaluates all
            if not all(isinstance(v, bool) for v, _ in vals):
                raise OutOfDomain("boolop_on_nonbool")
            bs = [v for v, _ in vals]
            r = all(bs) if isinstance(n.op, ast.And) else any(bs)
            return r, all(s for _, s in vals)
        if isinstance(n, ast.Compare):
            vals = [self.ev(n.left)] + [self.ev(c) for c in n.comparators]
            res = True
            for i, op in enumerate(n.ops):
                if type(op) not in _CMP:
                    raise OutOfDomain("unsupported_compare")
                (l, ls), (r, rs) = vals[i], vals[i + 1]
                if isinstance(l, bool) != isinstance(r, bool):
                    raise OutOfDomain("compare_bool_with_number")
                if not (ls and rs) and abs(l - r) <= NEAR * max(1.0, abs(l), abs(r)):
                    raise OutOfDomain("near_tie_of_inexact")
                res = res and _CMP[type(op)](l, r)
            return bool(res), True
        if isinstance(n, ast.BinOp):
            if type(n.op) not in _BIN:
                raise OutOfDomain("unsupported_binop")
            (l, ls), (r, rs) = self.ev(n.left), self.ev(n.right)
            if not (_is_num(l) and _is_num(r)):
                raise OutOfDomain("arith_on_bool")
            same = ls and rs
            t = type(n.op)
            if t in (ast.Div, ast.FloorDiv, ast.Mod):
                if r == 0:
                    raise OutOfDomain("zero_division")
                if not rs and abs(r) < NEAR:
                    raise OutOfDomain("inexact_divisor_near_zero")
                if t is not ast.Div and not same:
                    q = l / r
                    if abs(q - round(q)) <= NEAR * max(1.0, abs(q)):
                        raise OutOfDomain("inexact_quotient_near_integer")
            if t is ast.Pow:
                return self._pow(l, r, same)
            try:
                v = _BIN[t](l, r)
            except ZeroDivisionError:
                raise OutOfDomain("zero_division")
            except OverflowError:
                raise OutOfDomain("overflow")
            return self._fin(v), same
        raise OutOfDomain("unsupported_node:" + type(n).__name__)

    @staticmethod
    def _fin(v):
        if isinstance(v, complex):
            raise OutOfDomain("complex")
        if isinstance(v, int):
            if abs(v) > INT_LIMIT:
                raise OutOfDomain("int_overflow")
            return v
        if not math.isfinite(v):
            raise OutOfDomain("non_finite")
        return v

    def _pow(self, b, e, same):
        if isinstance(b, int) and isinstance(e, int):
            if e < 0:
                raise OutOfDomain("int_to_negative_int_power")  # numpy refuses, Python returns a float
            if e > 64 and abs(b) > 1:
                raise OutOfDomain("int_overflow")
            return self._fin(b**e), same
        if not same and abs(b) < NEAR:
            raise OutOfDomain("inexact_pow_base_near_zero")
        if e > 4096 or e < -4096:
            raise OutOfDomain("overflow")
        try:
            v = b**e
        except ZeroDivisionError:
            raise OutOfDomain("zero_division")
        except OverflowError:
            raise OutOfDomain("overflow")
        v = self._fin(v)
        exact = False
        if same and float(e) == int(e) and abs(e) <= 64:
            try:
                fb = Fraction(b)
                true = fb ** int(e)
                exact = Fraction(v) == true
            except (ZeroDivisionError, OverflowError, ValueError):
                exact = False
        return v, exact


def py_rows(text, tree, env):
    """Per row: ("ok", value) inside the common domain, else ("ood", reason)."""
    out = []
    for i in range(N_ROWS):
        row = {n: float(env[n][i]) for n in NUM_NAMES}
        row.update({n: bool(env[n][i]) for n in BOOL_NAMES})
        try:
            v, _ = _Dom(row).ev(tree)
        except OutOfDomain as e:
            out.append(("ood", e.reason))
            continue
        try:
            ref = eval(text, {"__builtins__": {}}, dict(row))  # noqa: S307 - the reference semantics itself
        except Exception as e:  # the walk evaluates every operand; Python may not (never the reverse)
            raise HarnessError(f"domain walk accepted {text!r} on {row!r} but eval raised {e!r}")
        if isinstance(ref, bool) != isinstance(v, bool) or ref != v:
            raise HarnessError(f"domain walk of {text!r} on {row!r} gave {v!r}, eval gave {ref!r}")
        out.append(("ok", ref))
    return out


# =================================================================================================
# features of a text (from Python's AST + source positions)

_CLASS = {
    ast.Add: "add",
    ast.Sub: "add",
    ast.Mult: "mul",
    ast.Div: "mul",
    ast.FloorDiv: "mul",
    ast.Mod: "mul",
    ast.Pow: "pow",
}


_SYM = {ast.Add: "+", ast.Sub: "-", ast.Mult: "*", ast.Div: "/", ast.FloorDiv: "//", ast.Mod: "%", ast.Pow: "**"}


def _node_class(n):
    if isinstance(n, ast.BinOp):
        return _CLASS.get(type(n.op), "otherbin")
    if isinstance(n, ast.UnaryOp):
        return "not" if isinstance(n.op, ast.Not) else "unary"
    if isinstance(n, ast.BoolOp):
        return "and" if isinstance(n.op, ast.And) else "or"
    if isinstance(n, ast.Compare):
        return "cmp"
    if isinstance(n, ast.Call):
        return "call"
    if isinstance(n, ast.IfExp):
        return "ifexp"
    return None


def _parenthesised(src, n):
    """Is this node directly wrapped in its own parentheses in the source text?"""
    i = n.col_offset - 1
    while i >= 0 and src[i] in " \t":
        i -= 1
    j = n.end_col_offset
    while j < len(src) and src[j] in " \t":
        j += 1
    return i >= 0 and j < len(src) and src[i] == "(" and src[j] == ")"


def _children(n):
    if isinstance(n, ast.BinOp):
        return [("L", n.left), ("R", n.right)]
    if isinstance(n, ast.UnaryOp):
        return [("R", n.operand)]
    if isinstance(n, ast.BoolOp):
        return [("L" if i == 0 else "R", c) for i, c in enumerate(n.values)]
    if isinstance(n, ast.Compare):
        return [("L", n.left)] + [("R", c) for c in n.comparators]
    if isinstance(n, ast.Call):
        r = []
        if isinstance(n.func, ast.Attribute):
            r.append(("L", n.func.value))
        return r + [("A", a) for a in n.args]
    if isinstance(n, ast.IfExp):
        return [("L", n.body), ("R", n.test), ("R", n.orelse)]
    return []


def py_ast(text):
    src = text.strip(" \t")
    return src, ast.parse(src, mode="eval")


def text_features(src, tree):
    """(features, nontrivial, sig_flags). A feature `p>c:side` is a parent/child operator pair whose
    grouping is decided by the parser (the child is not parenthesised)."""
    feats = set()
    nontrivial = False
    flags = {"chained_comparison": False, "neg_pow_base": False}
    n_ops = 0
    for n in ast.walk(tree):
        pc = _node_class(n)
        if pc is None:
            continue
        n_ops += 1
        feats.add("op:" + pc)
        if isinstance(n, ast.BinOp):
            feats.add("sym:" + _SYM.get(type(n.op), "?"))
        if isinstance(n, ast.Compare) and len(n.ops) > 1:
            flags["chained_comparison"] = True
            feats.add("cmp_chain")
            nontrivial = True
        if isinstance(n, ast.BoolOp) and len(n.values) > 2:
            feats.add("kary:" + pc)
        if isinstance(n, ast.BinOp) and isinstance(n.op, ast.Pow):
            b = n.left
            while isinstance(b, ast.UnaryOp) and isinstance(b.op, ast.UAdd):
                b = b.operand
            if isinstance(b, ast.UnaryOp) and isinstance(b.op, ast.USub):
                flags["neg_pow_base"] = True
                feats.add("neg_pow_base")
        for side, c in _children(n):
            cc = _node_class(c)
            if cc is None or side == "A":
                continue
            if _parenthesised(src, c):
                feats.add(f"paren:{pc}>{cc}")
                continue
            if pc == "call":
                continue  # `x.abs()`: the receiver is an atom_expr, nothing for precedence to decide
            feats.add(f"{pc}>{cc}:{side}")
            if isinstance(n, ast.BinOp) and isinstance(c, ast.BinOp) and pc == cc:
                feats.add(f"same:{_SYM[type(c.op)]} then {_SYM[type(n.op)]}" if side == "L" else f"same:{_SYM[type(n.op)]} then {_SYM[type(c.op)]}")
            nontrivial = True
    if "(" in src:
        feats.add("has_parens")
    if "  " in src or "\t" in src or src != src.strip():
        feats.add("odd_whitespace")
    feats.add("ops:%d" % min(n_ops, 6))
    return sorted(feats), nontrivial, flags


def neg_pow_base_text(tokens):
    """Generator-side twin of the neg_pow_base flag for a candidate base atom."""
    try:
        b = ast.parse(" ".join(tokens), mode="eval").body
    except SyntaxError:
        return False
    while isinstance(b, ast.UnaryOp) and isinstance(b.op, ast.UAdd):
        b = b.operand
    return isinstance(b, ast.UnaryOp) and isinstance(b.op, ast.USub)


# =================================================================================================
# oracles


def _sig(kind, flags, **kw):
    """Failure signature: the check, how it failed, and the one text flag that matters for that check (a known
    finding's signature is {"kind": "value", "chained_comparison": true} or {"kind": "roundtrip",
    "neg_pow_base": true})."""
    s = {"kind": kind}
    own = {"value": "chained_comparison", "roundtrip": "neg_pow_base"}[kind]
    s[own] = bool(flags.get(own, False))
    s.update(kw)
    return s


def check_value(case, ev=None):
    """Returns (Failure|None, nontrivial, features)."""
    from data_algebra.data_ops import TableDescription

    text, env = case["text"], case["env"]

    def count(k):
        if ev is not None:
            ev.count(k)

    try:
        src, tree = py_ast(text)
    except SyntaxError:
        count("python_rejects_text")
        return None, False, ["python_rejects_text"]
    feats, nontrivial, flags = text_features(src, tree)
    # 1. parser
    try:
        lib_parse(text)
    except Exception as e:
        count("parser_rejected")
        count("parser_rejected:" + _exc_bucket(e))
        return None, False, feats + ["parser_rejected"]
    count("parser_accepted")
    rows = py_rows(text, tree, env)
    in_dom = [i for i, (k, _) in enumerate(rows) if k == "ok"]
    for k, r in rows:
        if k == "ood":
            count("row_out_of_domain:" + r)
    if ev is not None:
        ev.count("rows_in_domain", len(in_dom))
        ev.count("rows_total", len(rows))
    # 2. library evaluation of the whole frame
    frame = _frame(env)
    try:
        with warnings.catch_warnings():
            warnings.simplefilter("ignore")
            ops = TableDescription(table_name="d", column_names=ALL_NAMES).extend({"res": text})
            res = ops.eval({"d": frame})
    except Exception as e:
        bucket = _exc_bucket(e)
        if not in_dom:
            count("eval_rejected_no_row_in_domain")
            count("eval_rejected_no_row_in_domain:" + bucket)
            return None, False, feats + ["eval_rejected_out_of_domain"]
        count("eval_rejected_in_domain:" + bucket)
        return (
            Failure(
                f"text {text!r} is accepted by the parser and Python evaluates it inside the common domain "
                f"(e.g. row {in_dom[0]} -> {rows[in_dom[0]][1]!r}) but the library raises {bucket}",
                _sig("value", flags, how="eval_rejected", bucket=bucket),
                {"text": text, "python": [list(r) for r in rows]},
            ),
            nontrivial,
            feats,
        )
    if "res" not in res.columns or res.shape[0] != N_ROWS:
        return (
            Failure(f"extend result for {text!r} has shape {res.shape}", _sig("value", flags, how="shape")),
            nontrivial,
            feats,
        )
    got = res["res"].tolist()
    if not in_dom:
        count("no_row_in_domain")
        return None, False, feats + ["no_row_in_domain"]
    bad = []
    for i in in_dom:
        ref = rows[i][1]
        g = cmp.norm_cell(got[i])
        r = cmp.norm_cell(ref)
        if g is None or isinstance(g, str) or not cmp.cell_eq(g, r):
            bad.append(i)
        elif isinstance(ref, bool) != isinstance(got[i], bool):
            count("boolness_differs_value_equal")
    if bad:
        i = bad[0]
        row = {n: env[n][i] for n in ALL_NAMES}
        return (
            Failure(
                f"text {text!r}: library computes {got[i]!r}, Python computes {rows[i][1]!r} on row {row!r} "
                f"({len(bad)} of {len(in_dom)} in-domain rows differ; library tree prints as "
                f"{str(lib_parse(text).to_python())!r})",
                _sig("value", flags, how="mismatch"),
                {"text": text, "library": got, "python": [list(r) for r in rows]},
            ),
            nontrivial,
            feats,
        )
    count("texts_compared")
    return None, nontrivial, feats


def check_roundtrip(case, ev=None):
    text = case["text"]

    def count(k):
        if ev is not None:
            ev.count(k)

    try:
        src, tree = py_ast(text)
        feats, nontrivial, flags = text_features(src, tree)
    except SyntaxError:
        count("python_rejects_text")
        feats, nontrivial, flags = ["python_rejects_text"], False, {}
    try:
        t = lib_parse(text)
    except Exception as e:
        count("parser_rejected")
        count("parser_rejected:" + _exc_bucket(e))
        return None, False, feats + ["parser_rejected"]
    count("parser_accepted")
    s = str(t.to_python())
    try:
        t2 = lib_parse(s)
    except Exception as e:
        return (
            Failure(
                f"text {text!r} parses, prints as {s!r}, and the printed form is rejected: {_exc_bucket(e, 80)}",
                _sig("roundtrip", flags, how="reparse_rejected"),
                {"text": text, "printed": s},
            ),
            nontrivial,
            feats,
        )
    s2 = str(t2.to_python())
    eq12, eq21 = bool(t.is_equal(t2)), bool(t2.is_equal(t))
    if not (eq12 and eq21):
        return (
            Failure(
                f"text {text!r} prints as {s!r}, which re-parses to a different tree (prints as {s2!r}; "
                f"t.is_equal(t2)={eq12}, t2.is_equal(t)={eq21})",
                _sig("roundtrip", flags, how="tree_differs"),
                {"text": text, "printed": s, "reprinted": s2},
            ),
            nontrivial,
            feats,
        )
    if s2 != s:
        return (
            Failure(
                f"text {text!r} prints as {s!r}; the equal re-parsed tree prints differently: {s2!r}",
                _sig("roundtrip", flags, how="print_differs"),
                {"text": text, "printed": s, "reprinted": s2},
            ),
            nontrivial,
            feats,
        )
    count("texts_round_tripped")
    return None, nontrivial, feats


def replay(check, case):
    if check == "roundtrip":
        return check_roundtrip(case)[0]
    return check_value(case)[0]


# =================================================================================================
# generator: typed, precedence-layered grammar mirroring Python's (or_test > and_test > not_test >
# comparison > arith > term > factor > power > atom); every layer may fall through to the next, atoms
# may be parenthesised expressions of any layer of the right type.


class _Gen:
    def __init__(self, draw, closed, methods):
        self.draw = draw
        self.closed = closed
        self.methods = methods
        self.toks = []
        self.left = 0
        self.excluded = 0

    # ---- randomness
    def pct(self, p):
        return self.draw(st.integers(0, 99)) < p

    def pick(self, xs):
        return xs[self.draw(st.integers(0, len(xs) - 1))]

    # ---- emission
    def emit(self, t, cost=1):
        self.toks.append(t)
        self.left -= cost

    def paren(self, fn, d):
        self.emit("(", 0)
        fn(d + 1)
        self.emit(")", 0)

    class _Reserve:
        def __init__(self, g, k):
            self.g, self.k = g, k

        def __enter__(self):
            self.g.left -= self.k

        def __exit__(self, *a):
            self.g.left += self.k

    def reserve(self, k):
        return _Gen._Reserve(self, k)

    # ---- boolean layers
    def or_test(self, d):
        self.chain(self.and_test, ["or"], d, 40)

    def and_test(self, d):
        self.chain(self.not_test, ["and"], d, 45)

    def chain(self, sub, ops, d, p_more, nmax=3):
        sub(d)
        n = 1
        while n < nmax and self.left >= 2 and self.pct(p_more):
            self.emit(self.pick(ops))
            sub(d)
            n += 1

    def not_test(self, d):
        if self.left >= 2 and self.pct(25):
            self.emit("not")
            self.not_test(d)
        else:
            self.comparison(d)

    def comparison(self, d):
        r = self.draw(st.integers(0, 99))
        if self.left >= 3 and r < 60:  # numeric comparison
            want_chain = self.left >= 5 and self.pct(15)
            if want_chain and "chained_comparison" in self.closed:
                self.excluded += 1
                want_chain = False
            k = 2 if want_chain else 1
            with self.reserve(2 * k):
                self.arith(d)
            for i in range(k):
                self.emit(self.pick(CMP_OPS))
                with self.reserve(2 * (k - 1 - i)):
                    self.arith(d)
        elif self.left >= 3 and r < 75:  # boolean (in)equality
            want_chain = self.left >= 5 and self.pct(10)
            if want_chain and "chained_comparison" in self.closed:
                self.excluded += 1
                want_chain = False
            k = 2 if want_chain else 1
            with self.reserve(2 * k):
                self.bool_atom(d)
            for i in range(k):
                self.emit(self.pick(["==", "!="]))
                with self.reserve(2 * (k - 1 - i)):
                    self.bool_atom(d)
        else:
            self.bool_atom(d)

    def bool_atom(self, d):
        if d < MAX_DEPTH and self.left >= 2 and self.pct(45):
            self.paren(self.or_test, d)
        elif self.pct(8):
            self.emit(self.pick(["True", "False"]))
        else:
            self.emit(self.pick(BOOL_NAMES))

    # ---- numeric layers
    def arith(self, d):
        self.chain(self.term, ADD_OPS, d, 40)

    def term(self, d):
        self.chain(self.factor, MUL_OPS, d, 35)

    def factor(self, d):
        if self.left >= 2 and self.pct(22):
            self.emit("-" if self.pct(80) else "+")
            self.factor(d)
        else:
            self.power(d)

    def power(self, d):
        start = len(self.toks)
        want_pow = self.left >= 3 and self.pct(30)
        if want_pow:
            with self.reserve(2):
                self.atom(d)
        else:
            self.atom(d)
            return
        base = self.toks[start:]
        if "neg_pow_base" in self.closed and neg_pow_base_text(base):
            self.excluded += 1
            return
        intlike = all(t in INT_LITS or t in EXP_INT_LITS or t in ("(", ")", "+", "-", "*", "//", "%", "**") for t in base)
        self.emit("**")
        self.exponent(d, intlike)

    def exponent(self, d, int_base):
        """Grammar: '**' factor. Small literals mostly, so that values stay finite; an int-like base
        never gets a negated int-like exponent (numpy refuses integer ** negative integer)."""
        r = self.draw(st.integers(0, 99))
        if r < 50 or self.left < 2:
            self.emit(self.pick(EXP_INT_LITS))
            if self.left >= 2 and self.pct(25):  # a ** b ** c
                self.emit("**")
                self.exponent(d, True)
        elif r < 62:
            if int_base:
                self.emit(self.pick(EXP_INT_LITS))
            else:
                self.emit("-")
                self.emit(self.pick(["1", "2"]))
        elif r < 74:
            self.emit(self.pick(EXP_FRAC_LITS))
        elif r < 84:
            self.emit(self.pick(NUM_NAMES))
        elif r < 92:
            self.emit("-")
            self.emit(self.pick(NUM_NAMES))
        elif d < MAX_DEPTH and not int_base:
            self.paren(self.arith, d)
        else:
            self.emit(self.pick(EXP_INT_LITS))

    def atom(self, d):
        r = self.draw(st.integers(0, 99))
        if d < MAX_DEPTH and self.left >= 2 and r < 30:
            self.paren(self.arith, d)
            self.method_tail(d)
        elif r < 65 or self.left < 1:
            self.emit(self.pick(NUM_NAMES))
            self.method_tail(d)
        elif r < 85:
            self.emit(self.pick(INT_LITS))
        else:
            self.emit(self.pick(FLOAT_LITS))

    def method_tail(self, d):
        """`.abs()`, `.maximum(expr)`, `.if_else(e, e)` after an atom (round-trip texts only)."""
        if not self.methods:
            return
        n = 0
        while n < 2 and self.left >= 1 and self.pct(30):
            n += 1
            r = self.draw(st.integers(0, 99))
            if r < 60 or self.left < 2 or d >= MAX_DEPTH:
                self.emit("." + self.pick(METHODS_1) + "(", 1)
                self.emit(")", 0)
            elif r < 90 or self.left < 3:
                self.emit("." + self.pick(METHODS_2) + "(", 1)
                self.arith(d + 1)
                self.emit(")", 0)
            else:
                self.emit(".if_else(", 1)
                with self.reserve(1):
                    self.arith(d + 1)
                self.emit(",", 0)
                self.arith(d + 1)
                self.emit(")", 0)


def _needs_space(a, b):
    wa = a[-1].isalnum() or a[-1] == "_"
    wb = b[0].isalnum() or b[0] == "_"
    if wa and wb:
        return True
    # keep two-character operators intact and do not create new ones ("* *" is not "**", "/" "/" ...)
    if a[-1] in "*/<>=!" and b[0] in "*/<>=!":
        return True
    return False


def _render(g, toks):
    style = g.draw(st.integers(0, 3))  # 0 single spaces, 1 minimal, 2/3 random
    out = []
    for i, t in enumerate(toks):
        if i > 0:
            prev = toks[i - 1]
            must = _needs_space(prev, t)
            tight = t.startswith(".") or prev.endswith("(") and prev.startswith(".") or t in (")", ",") or prev == "("
            if style == 0:
                sep = "" if tight and not must else " "
            elif style == 1:
                sep = " " if must else ""
            else:
                sep = g.pick(["", " ", " ", "  ", "\t"])
                if must and sep == "":
                    sep = " "
                if t.startswith(".") and prev[-1].isdigit():
                    sep = ""  # `2 .abs()` never generated: receivers are names or parenthesised
            out.append(sep)
        out.append(t)
    text = "".join(out)
    if style >= 2:
        text = g.pick(["", "", " ", "\t"]) + text + g.pick(["", "", " ", "  "])
    return text


def text_strategy(closed, methods):
    closed = frozenset(closed)

    @st.composite
    def build(draw):
        g = _Gen(draw, closed, methods)
        if 50 <= draw(st.integers(0, 99)) < 53:  # (not the low end: Hypothesis favours boundary values)
            # forms of the Python grammar the DSL documents as unsupported: counted as rejections
            return g.pick(OUTSIDE_FORMS), 0
        if 60 <= draw(st.integers(0, 99)) < 72:
            # unary sign / binary operator interaction templates: a sign in front of a parenthesised product,
            # quotient, floor division, remainder or power whose LEFT operand is a literal (folding the sign into
            # that literal is only right for * and /), and the same without the parentheses
            L = g.pick(["7", "5", "3", "2.5", "7.5", "1"])
            N = g.pick(NUM_NAMES)
            M = g.pick(NUM_NAMES + ["2", "3"])
            op = g.pick(["//", "//", "%", "%", "*", "/", "**", "-", "+"])
            sign = g.pick(["-", "-", "+"])
            t = g.pick(
                [
                    f"{sign}({L} {op} {N})",
                    f"{sign}({L} {op} {N}) {g.pick(['+', '*', '-'])} {M}",
                    f"{M} {g.pick(['+', '*', '-'])} {sign}({L} {op} {N})",
                    f"{sign}{L} {op} {N}",
                    f"{sign}({N} {op} {L})",
                    f"{sign}({L} {op} {N} {op} {M})" if op != "**" else f"{sign}({L} {op} {N})",
                    f"{sign}({sign}{L} {op} {N})",
                ]
            )
            return t, 0
        g.left = draw(st.integers(3, MAX_TOKENS)) if draw(st.integers(0, 99)) < 85 else draw(st.integers(1, 2))
        if draw(st.integers(0, 99)) < 45:
            g.or_test(0)
        else:
            g.arith(0)
        return _render(g, g.toks), g.excluded

    return build()


def env_strategy():
    """8 rows of x y z (k/den, |k| <= 4*den, den in 1 2 4) and a b. Four cells per integer draw (< 2**24, so
    Hypothesis draws them uniformly) rather than 40 separate draws: with a long choice sequence Hypothesis
    re-uses the text part of earlier examples far more often (measured: 280 instead of 700 distinct texts
    per 1500)."""

    @st.composite
    def build(draw):
        den = draw(st.sampled_from([4, 2, 1, 4]))
        base = 8 * den + 1
        # digit -> value: integers first, then halves, then quarters, 0.0 in the middle; the digit is rotated by a
        # cell-dependent offset because Hypothesis draws 0 (all four digits 0) far more often than anything else,
        # which would otherwise make a third of all cells the same value
        grid = sorted(range(-4 * den, 4 * den + 1), key=lambda k: ((k % den) != 0, (2 * k % den) != 0, abs(k), k < 0))
        grid.remove(0)
        grid.insert(len(grid) // 2, 0)
        env = {}
        cell = 0
        for n in NUM_NAMES:
            col = []
            for _ in range(N_ROWS // 4):
                code = draw(st.integers(0, base**4 - 1))
                for _ in range(4):
                    code, dgt = divmod(code, base)
                    col.append(grid[(dgt + 3 * cell) % base] / den)
                    cell += 1
            env[n] = col
        bits = draw(st.integers(0, 2 ** (2 * N_ROWS) - 1)) ^ 0b0011010110100110  # 0 is drawn most often: make it a mix
        for n in BOOL_NAMES:
            col = []
            for _ in range(N_ROWS):
                bits, bt = divmod(bits, 2)
                col.append(bool(bt))
            env[n] = col
        return env

    return build()


def case_strategy(closed, methods, with_env):
    @st.composite
    def build(draw):
        env = draw(env_strategy()) if with_env else None  # first: Hypothesis varies the tail (the text) more
        text, excl = draw(text_strategy(closed, methods))
        case = {"text": text, "excluded_by_construction": excl}
        if with_env:
            case["env"] = env
        return case

    return build()


# =================================================================================================
# trusted base self-check: numpy's float // and % are Python's on the value grid (incl. negatives)


def _check_numpy_divmod():
    import numpy

    vals = [k / 4 for k in range(-16, 17)] + [1 / 3, -1 / 3, 2.75 / 1.5, -7.0, 7.0, 10.0, 0.1]
    with numpy.errstate(all="ignore"):
        for a in vals:
            for b in vals:
                if b == 0:
                    continue
                for fn, pf in ((numpy.floor_divide, operator.floordiv), (numpy.mod, operator.mod)):
                    got, ref = float(fn(numpy.float64(a), numpy.float64(b))), pf(a, b)
                    if got != ref:
                        raise HarnessError(f"numpy and Python disagree on {pf.__name__}({a}, {b}): {got} vs {ref}")
        for a in range(-9, 10):
            for b in range(-9, 10):
                if b == 0:
                    continue
                if int(numpy.floor_divide(a, b)) != a // b or int(numpy.mod(a, b)) != a % b:
                    raise HarnessError(f"numpy and Python disagree on int divmod({a}, {b})")


def run(ctx):
    ev = ctx.ev
    ev.rule = (
        "expression texts built by construction from a typed, precedence-layered grammar mirroring Python's "
        "(or > and > not > comparison > + - > * / // % > unary - + > ** > atom; atoms = int/float literals, "
        "numeric names x y z, boolean names a b, True/False, parenthesised sub-expressions; chained comparisons; "
        "redundant parentheses; random whitespace; <= 15 operand/operator tokens, depth <= 4; round-trip texts "
        "additionally carry method calls .abs() .maximum(e) .if_else(e, e) ...; 3% texts are Python forms the DSL "
        "does not support, to count rejections), each with an 8-row environment (x y z multiples of 1, 1/2 or 1/4 in "
        "[-4, 4], a b booleans). non-trivial = Python's AST of the text has a parent/child operator pair whose "
        "grouping the parser decides (child not parenthesised: different precedence classes, or an associativity-"
        "sensitive repetition such as a - b - c, a ** b ** c, -a ** b, not a == b) or a comparison chain, and "
        "(value check) at least one row inside the common domain was compared. distinct = SHA-1 of (check, text). Feature histogram: `p>c:side` operator-pair classes, `paren:p>c`, symbols."
    )
    ev.assumptions = [
        "value agreement is demanded only on rows where a walk of Python's AST with Python values stays inside the "
        "common domain: arithmetic and unary -/+ on non-bool numbers only (numpy's bool + and - are logical), "
        "and/or/not on bools only, == != < <= > >= between two numbers or two bools (the DSL refuses bool-vs-number "
        "equality by design), no ZeroDivisionError/OverflowError, no complex or non-finite intermediate, Python ints "
        "below 2**53, no int ** negative int (numpy refuses), all operands of and/or evaluated (no short circuit)",
        "chained comparisons (x < y < z) are inside the common domain: Python and the DSL both define every "
        "comparison operator in the text, the property promises the value Python assigns to the text",
        "numpy and CPython agree bit for bit on + - * / // % of identical float inputs (checked at start for // and % "
        "on the value grid) and on ** whenever the exact result is representable; after any other ** (fractional or "
        "negative exponent, inexact result) comparisons, //, % and divisions whose outcome would flip within 1e-6 "
        "of the computed operands are treated as outside the domain, and results are compared with vp.cmp tolerance",
        "bool-ness of the result is not compared (True == 1.0 counts as equal; counted in boolness_differs_value_equal)",
        "exceptions raised by parse_by_lark for a text count as rejection whatever their type; a library exception "
        "during extend/eval is a violation only if at least one row is inside the common domain",
        "round trip is checked with parse_by_lark(text, data_def={name: ColumnReference(name)}) as "
        "expr_parse.parse_assignments_in_context does, printing with to_python() default arguments",
        "operand values are limited to the dyadic grid and the literal pool; texts to 15 tokens / depth 4",
    ]
    ev.trusted_base = ["CPython ast.parse/eval as reference semantics", "numpy float divmod == Python float divmod (self-check)"]
    _check_numpy_divmod()
    ctx.probe_findings(replay)
    closed = set(ctx.closed) | {f for f in os.environ.get("VERIF_C13_CLOSE", "").split(",") if f}
    if closed - set(ctx.closed):
        ev.extra["flags_closed_by_env"] = sorted(closed - set(ctx.closed))

    def value_oracle(case):
        if case.get("excluded_by_construction"):
            ev.count("excluded_by_construction", case["excluded_by_construction"])
        f, nt, feats = check_value(case, ev)
        ev.note({"check": "value", "text": case["text"]}, nt, ["value"] + ["v:" + x for x in feats], sample=case)
        return f

    def roundtrip_oracle(case):
        if case.get("excluded_by_construction"):
            ev.count("excluded_by_construction", case["excluded_by_construction"])
        f, nt, feats = check_roundtrip(case, ev)
        ev.note({"check": "roundtrip", "text": case["text"]}, nt, ["roundtrip"] + ["r:" + x for x in feats], sample=case)
        return f

    # each flag only narrows the campaign whose oracle its finding breaks
    v_closed = closed & {"chained_comparison"}
    r_closed = closed & {"neg_pow_base"}
    ctx.campaign("value", case_strategy(v_closed, False, True), value_oracle, max_examples=ctx.n(2500, 200000))
    ctx.campaign("roundtrip", case_strategy(r_closed, True, False), roundtrip_oracle, max_examples=ctx.n(2500, 200000))
