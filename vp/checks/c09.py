"""C09 — aggregation returns one row per group, and one row without grouping; windowed extend keeps every row
and computes each row's value over that row's group (model-based + cardinality predicates).

case = prefix program P (any operators) -> target node T (grouped project / ungrouped project / windowed extend with
partition) -> suffix (nothing, or steps that overwrite or drop T's outputs).  Per engine (Pandas, SQLite, Polars when it
returns) the target's input I is obtained by evaluating P alone on that engine; then
  grouped project  : rows == number of distinct key tuples of I (NULL is a key value of its own) and the key
                     multiset of the result equals the distinct keys;
  ungrouped project: exactly one row — also when I is empty and when every output is later overwritten or dropped;
  windowed extend  : rows == |I| and each row's new value equals the reference aggregate (vp.ref) over that row's
                     partition of I, the NULL partition included.
"""

from __future__ import annotations

from hypothesis import strategies as st

from .. import cmp, engines, gen, ref, schema, spec
from ..common import Failure
from . import c01

PID = "C09"

PREFIX_OPS = {"extend": 4, "select_rows": 4, "natural_join": 3, "drop_columns": 1, "concat_rows": 1, "window": 1, "project": 0, "order_rows": 1, "convert_records": 0}


def draw_case(draw, closed=()):
    cfg = {"n_tables": (1, 2), "final_order": 0.0, "ops": PREFIX_OPS, "closed": set(closed), "max_rows": 7}
    g = gen.G(draw, cfg)
    b = gen.Builder(g, cfg)
    p = b.grow(b.heads[0], g.pick([0, 0, 1, 1, 2, 3]), wander=0)
    sch = b.schemas[p]
    kind = g.pick(["grouped", "grouped", "ungrouped", "ungrouped", "window", "window"])
    nd = None
    for _ in range(8):
        if kind == "window":
            cand = gen.step_window(g, sch)
            if cand is not None and isinstance(cand.get("partition_by"), list) and cand["partition_by"]:
                nd = cand
                break
        else:
            cand = gen.step_project(g, sch)
            if cand is not None and kind == "ungrouped" and cand["group_by"]:
                # the shared step prefers grouped projects: strip the grouping (any/all are grouped-only, see vp.gen)
                cand = {"op": "project", "group_by": [], "ops": [o for o in cand["ops"] if o[1][1] not in ("any", "all")]}
            if cand is not None and bool(cand["group_by"]) == (kind == "grouped") and (cand["ops"] or kind == "grouped"):
                nd = cand
                break
    if nd is None:
        kind = "ungrouped"
        numeric = sch.of_type("int", "float") or None
        nd = {"op": "project", "ops": [["n", ["call", "_size", []]]], "group_by": []}
    nd["src"] = p
    t = b.add(nd)
    if t is None:
        nd = {"op": "project", "ops": [["n", ["call", "_size", []]]], "group_by": [], "src": p}
        kind = "ungrouped"
        t = b.add(nd)
    outs = [k for k, _ in nd["ops"]]
    keys = list(nd.get("group_by") or []) if nd["op"] == "project" else []
    cur = t
    suffix = g.pick(["none", "none", "overwrite", "drop", "overwrite_then_select", "drop_then_overwrite"])
    if nd["op"] == "extend":
        suffix = g.pick(["none", "none", "window2", "window2", "window2", "overwrite"])
    if suffix == "window2":
        # a second windowed extend right after the target, over the whole table or a shorter partition list:
        # the target's values must still be per-partition (adjacent windows must not be merged into one window)
        osch = b.schemas[t]
        pb = nd["partition_by"]
        pb2 = 1 if (len(pb) == 1 or g.boolean()) else pb[:-1]
        free = [n for n in gen.S.POOLS["int"] if n not in osch.cols and n != "id"]
        if free:
            nxt = b.add({"op": "extend", "src": cur, "ops": [[g.pick(free), ["call", "_size", []]]], "partition_by": pb2})
            cur = nxt if nxt is not None else cur
        else:
            suffix = "none"
    if suffix not in ("none", "window2") and outs:
        if suffix in ("overwrite", "overwrite_then_select"):
            lits = {"int": 1, "float": 0.5, "str": "z", "bool": True}
            osch = b.schemas[t]
            ops = [[k, ["lit", lits[osch.cols[k]["type"]]]] for k in outs]
            nxt = b.add({"op": "extend", "src": cur, "ops": ops})
            cur = nxt if nxt is not None else cur
            if suffix == "overwrite_then_select" and keys:
                nxt = b.add({"op": "select_columns", "src": cur, "cols": keys})
                cur = nxt if nxt is not None else cur
        elif suffix == "drop":
            osch = b.schemas[t]
            droppable = outs if keys else outs[:-1]
            if droppable:
                nxt = b.add({"op": "drop_columns", "src": cur, "cols": droppable})
                cur = nxt if nxt is not None else cur
        elif suffix == "drop_then_overwrite":
            # some outputs dropped, every remaining one replaced by a constant: nothing of the aggregation is read any more
            osch = b.schemas[t]
            if len(outs) >= 2:
                nxt = b.add({"op": "drop_columns", "src": cur, "cols": outs[:-1]})
                if nxt is not None:
                    cur = nxt
                    lits = {"int": 1, "float": 0.5, "str": "z", "bool": True}
                    nxt = b.add({"op": "extend", "src": cur, "ops": [[outs[-1], ["lit", lits[osch.cols[outs[-1]]["type"]]]]]})
                    cur = nxt if nxt is not None else cur
            else:
                suffix = "overwrite"
                lits = {"int": 1, "float": 0.5, "str": "z", "bool": True}
                nxt = b.add({"op": "extend", "src": cur, "ops": [[k, ["lit", lits[osch.cols[k]["type"]]]] for k in outs]})
                cur = nxt if nxt is not None else cur
    case = b.finish(cur)
    case["root"] = cur
    case["prefix_root"] = p
    case["target"] = t
    case["kind"] = kind if nd["op"] == "project" else "window"
    case["suffix"] = suffix
    case["expr_mode"] = "text"
    return case


def cases(closed=()):
    return st.composite(lambda draw: draw_case(draw, closed))()


def _run(engine, ops, case, names):
    if engine == "pandas":
        return engines.run_pandas(ops, spec.pandas_tables(case, names))
    if engine == "polars":
        return engines.run_polars(ops, spec.polars_tables(case, names))
    eng = engines.SQLiteEngine("sqlite")
    try:
        eng.load(spec.pandas_tables(case, names))
        return eng.run(ops)
    finally:
        eng.close()


def _key(row, idx):
    return tuple(("N",) if row[i] is None else (("S", row[i]) if isinstance(row[i], str) else ("F", round(row[i], 9))) for i in idx)


def check(case):
    info = {}
    try:
        full = spec.build(case)
        prefix = spec.build(case, root=case["prefix_root"])
    except Exception as e:
        info["builder_rejected"] = str(e)
        return None, info
    tnd = case["nodes"][case["target"]]
    kind = case["kind"]
    names_full = spec.used_tables(case)
    names_pre = spec.used_tables(case, case["prefix_root"])
    for engine in ("pandas", "sqlite", "polars"):
        try:
            icols, irows = _run(engine, prefix, case, names_pre)
            rcols, rrows = _run(engine, full, case, names_full)
        except engines.EngineError as e:
            info["raised_" + engine] = e.bucket()
            continue
        info.setdefault("engines", []).append(engine)
        info["input_rows"] = len(irows)
        if kind == "ungrouped":
            if len(rrows) != 1:
                return (
                    Failure(
                        f"{engine}: project without group_by returned {len(rrows)} rows (input has {len(irows)} rows; suffix={case['suffix']}), expected exactly 1",
                        {"kind": "ungrouped_rows", "engine": engine, "empty_input": len(irows) == 0, "suffix": case["suffix"]},
                    ),
                    info,
                )
        elif kind == "grouped":
            gb = list(tnd["group_by"])
            kidx = [icols.index(c) for c in gb]
            distinct = {}
            for r in irows:
                distinct[_key(r, kidx)] = distinct.get(_key(r, kidx), 0) + 1
            info["null_key_group"] = any(("N",) in k for k in distinct)
            if len(rrows) != len(distinct):
                return (
                    Failure(
                        f"{engine}: project grouped by {gb} returned {len(rrows)} rows for {len(distinct)} distinct key combinations "
                        f"(null keys present: {info['null_key_group']}; suffix={case['suffix']})",
                        {"kind": "grouped_rows", "engine": engine, "null_key": info["null_key_group"], "suffix": case["suffix"]},
                        {"input": cmp.brief((icols, irows), 10), "result": cmp.brief((rcols, rrows), 10)},
                    ),
                    info,
                )
            if all(c in rcols for c in gb):
                ridx = [rcols.index(c) for c in gb]
                got = sorted(_key(r, ridx) for r in rrows)
                if got != sorted(distinct.keys()):
                    return (
                        Failure(
                            f"{engine}: the group keys of the result are not the distinct keys of the input",
                            {"kind": "grouped_keys", "engine": engine},
                            {"input": cmp.brief((icols, irows), 10), "result": cmp.brief((rcols, rrows), 10)},
                        ),
                        info,
                    )
        else:  # window
            if len(rrows) != len(irows):
                return (
                    Failure(
                        f"{engine}: windowed extend returned {len(rrows)} rows for {len(irows)} input rows",
                        {"kind": "window_rows", "engine": engine},
                    ),
                    info,
                )
            if case["suffix"] in ("none", "window2"):
                pb = list(tnd["partition_by"])
                pidx = [icols.index(c) for c in pb]
                parts = {}
                for r in irows:
                    parts.setdefault(_key(r, pidx), []).append(r)
                info["null_partition"] = any(("N",) in k for k in parts)
                produced = {k for k, _ in tnd["ops"]}
                # expected rows: input row (with overwritten columns replaced) + new values
                expected = []
                for r in irows:
                    part = parts[_key(r, pidx)]
                    vals = {}
                    for name, e in tnd["ops"]:
                        fn = e[1]
                        arg = e[2][0][1] if e[2] else None
                        col_vals = [x[icols.index(arg)] for x in part] if arg is not None else []
                        vals[name] = ref.agg(fn, col_vals, len(part))
                    expected.append([vals[c] if c in produced else r[icols.index(c)] for c in rcols if c in produced or c in icols])
                # multiset match with acceptable sets (columns added by a later step are ignored)
                keep = [j for j, c in enumerate(rcols) if c in produced or c in icols]
                rest = [[r[j] for j in keep] for r in rrows]
                for ex in expected:
                    hit = None
                    for k, got in enumerate(rest):
                        if all(ref.accept(a, b2, cmp.cell_eq) for a, b2 in zip(ex, got)):
                            hit = k
                            break
                    if hit is None:
                        return (
                            Failure(
                                f"{engine}: windowed extend over partition {pb}: no result row carries the reference values {ex} "
                                f"(null partition present: {info['null_partition']})",
                                {"kind": "window_values", "engine": engine, "null_partition": info["null_partition"]},
                                {"input": cmp.brief((icols, irows), 10), "result": cmp.brief((rcols, rrows), 10)},
                            ),
                            info,
                        )
                    rest.pop(hit)
                info["window_values_checked"] = True
    return None, info


def replay(check_name, case):
    f, _ = check(case)
    return f


def run(ctx):
    ev = ctx.ev
    ev.rule = (
        "prefix program (0-3 random steps incl. joins/filters) -> target (grouped project / ungrouped project / partitioned windowed "
        "extend; group and partition keys may be NULL-able str/float/int/bool columns) -> suffix (none / overwrite every output / drop "
        "outputs / overwrite then select keys); per engine the target's input is the engine's own evaluation of the prefix; non-trivial = "
        "the input has a NULL key or is empty, or the suffix overwrites/drops the aggregates; distinct = SHA-1 of the case JSON"
    )
    ev.assumptions = [
        "Polars is judged only when it returns for both the prefix and the full program",
        "windowed values are compared with vp.ref.agg (sum over no non-null values may be 0 or NULL)",
    ]
    ev.trusted_base = ["vp.ref.agg", "vp.cmp", "each engine's own evaluation of the prefix program as the target's input"]
    ctx.probe_findings(replay)

    def oracle(case):
        f, info = check(case)
        fs = ["kind_" + case["kind"], "suffix_" + case["suffix"]]
        nt = bool(info.get("null_key_group") or info.get("null_partition") or info.get("input_rows") == 0 or case["suffix"] != "none")
        if info.get("null_key_group") or info.get("null_partition"):
            fs.append("null_key")
        if info.get("input_rows") == 0:
            fs.append("empty_input")
        if info.get("window_values_checked"):
            fs.append("window_values_checked")
        fs += ["engine_" + e for e in info.get("engines", [])]
        ev.note(case, nt and bool(info.get("engines")), fs, sample={"program": c01._sample(case), "kind": case["kind"], "suffix": case["suffix"]})
        for k in list(info):
            if k.startswith("raised_") or k == "builder_rejected":
                ev.count(k)
        return f

    ctx.campaign("main", cases(ctx.closed), oracle, max_examples=ctx.n(900, 48000))
