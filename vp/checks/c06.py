"""C06 — builder simplifications never change what a pipeline means (differential: chained vs stepwise).

chained  = t.s1().s2()...sn()            (the builder may merge extends, collapse selections, drop order_rows)
stepwise = evaluate s1 on the data, describe the *materialised* result as a fresh TableDescription, apply s2 to
           that, ...  (no two steps ever share a DAG, so no simplification can fire)
(1) if both build, the Pandas results are equal (multiset; key sequence if the last step is order_rows);
(2) the chained builder raises at step k iff the stepwise builder raises at step k (acceptance, incl. the
    check_all_common_keys_in_equi_spec option of a final join).
"""

from __future__ import annotations

import warnings

from hypothesis import strategies as st

from .. import cmp, engines, gen, schema, spec
from ..common import Failure
from . import c01

PID = "C06"

CHAIN_WEIGHTS = {
    "extend": 9,
    "window": 2,
    "ordered_window": 2,
    "select_rows": 2,
    "select_columns": 3,
    "drop_columns": 3,
    "rename_columns": 1,
    "map_columns": 1,
    "order_rows": 4,
    "project": 1,
}


def draw_chain(draw):
    cfg = {"n_tables": (1, 2), "pool_size": 2, "final_order": 0.0, "expr_mode": "text", "max_rows": 5}
    g = gen.G(draw, cfg)
    b = gen.Builder(g, cfg)
    n = g.pick([2, 2, 3, 3, 4, 5, 6])
    cur = b.grow(b.heads[0], n, weights=CHAIN_WEIGHTS, wander=0)
    # adjacent windowed extends that differ in ONE window parameter only (the merge test must see every one):
    # same partition, order_by permuted; or partition_by=[cols] followed by partition_by=1; or reverse differs
    if g.boolean(0.35):
        sch0 = b.schemas[cur]
        first = None
        for _ in range(6):
            cand = gen.step_ordered_window(g, sch0)
            if cand is not None and len(cand["order_by"]) >= 2:
                first = cand
                break
        if first is not None:
            first["src"] = cur
            i1 = b.add(first)
            if i1 is not None:
                sch1 = b.schemas[i1]
                variant = g.pick(["order_permuted", "partition_to_1", "reverse_differs", "partition_dropped_col"])
                second = {"op": "extend", "order_by": list(first["order_by"]), "partition_by": first.get("partition_by", 1)}
                if first.get("reverse"):
                    second["reverse"] = list(first["reverse"])
                if variant == "order_permuted":
                    second["order_by"] = list(reversed(first["order_by"]))
                elif variant == "partition_to_1":
                    second["partition_by"] = 1
                elif variant == "reverse_differs":
                    k = g.pick(first["order_by"])
                    rv = set(first.get("reverse") or [])
                    second["reverse"] = sorted(rv ^ {k})
                    if not second["reverse"]:
                        second.pop("reverse")
                elif isinstance(first.get("partition_by"), list) and len(first["partition_by"]) >= 1:
                    second["partition_by"] = first["partition_by"][:-1] or 1
                taken = {k for k, _ in first["ops"]} | set(first["order_by"]) | set(first["partition_by"] if isinstance(first.get("partition_by"), list) else [])
                free_int = [n_ for n_ in g.pool("int") + ["n", "c", "b"] if n_ not in taken]
                nonnull_num = [c for c in sch0.of_type("int", "float", null=False) if c not in taken]
                ops2 = []
                if free_int:
                    ops2.append([g.pick(free_int), ["call", "_row_number", []]])
                if nonnull_num and g.boolean():
                    src_col = g.pick(nonnull_num)
                    tgt = [n_ for n_ in g.pool(sch0.cols[src_col]["type"]) if n_ not in taken and n_ not in [o[0] for o in ops2] and n_ != src_col]
                    if tgt:
                        ops2.append([g.pick(tgt), ["call", "cumsum", [["col", src_col]]]])
                if ops2:
                    second["ops"] = ops2
                    second["src"] = i1
                    i2 = b.add(second)
                    cur = i2 if i2 is not None else i1
                else:
                    cur = i1
    elif g.boolean(0.2):
        # order_rows without limit (dropped by the builder when a further order_rows follows) and then a top-k with its
        # own order columns, a non-empty reverse and a limit: the surviving step must keep every parameter
        first = gen.step_order_rows(g, b.schemas[cur], final=False)
        second = gen.step_order_rows(g, b.schemas[cur], final=False)
        if first is not None and second is not None and second["cols"]:
            first["limit"] = None
            first["src"] = cur
            i1 = b.add(first)
            if i1 is not None:
                if second["limit"] is None:
                    second["limit"] = g.pick([1, 2, 3])
                if not second["reverse"]:
                    second["reverse"] = g.subset(second["cols"], lo=1, hi=len(second["cols"]))
                second["src"] = i1
                i2 = b.add(second)
                cur = i2 if i2 is not None else i1
    case = b.finish(cur)
    # linearise: chain = nodes from the table up to the root
    chain = []
    i = case["root"]
    while case["nodes"][i]["op"] != "table":
        chain.append(i)
        i = case["nodes"][i]["src"]
    chain.reverse()
    steps = [dict(case["nodes"][k]) for k in chain]
    for s in steps:
        s.pop("src", None)
    tname = case["nodes"][i]["name"]
    sch = schema.infer(case)[case["root"]]
    # optional injected step that a correct builder must reject (or a checked join it must judge correctly)
    inj = g.pick(["none", "none", "none", "select_dropped", "extend_unknown", "join_check", "join_check", "join_check", "order_unknown"])
    dropped = []
    for s in steps:
        if s["op"] == "drop_columns":
            dropped += s["cols"]
    cols_now = sch.names()
    if inj == "select_dropped":
        cand = [c for c in dropped if c not in cols_now] or ["zz_missing"]
        keep = g.subset(cols_now, lo=0, hi=2)
        steps.append({"op": "select_columns", "cols": keep + [g.pick(cand)]})
    elif inj == "extend_unknown":
        cand = [c for c in dropped if c not in cols_now] or ["zz_missing"]
        steps.append({"op": "extend", "ops": [["n", ["call", "+", [["col", g.pick(cand)], ["lit", 1]]]]]})
    elif inj == "order_unknown":
        cand = [c for c in dropped if c not in cols_now] or ["zz_missing"]
        steps.append({"op": "order_rows", "cols": [g.pick(cand)], "reverse": [], "limit": None})
    elif inj == "join_check":
        other = g.pick(sorted(case["tables"].keys()))
        ocols = [e[0] for e in case["tables"][other]["cols"]]
        common = [c for c in cols_now if c in ocols and not sch.cols[c]["null"] and not sch.cols[c]["zn"] and sch.cols[c]["type"] != "bool"]
        if common:
            k = g.subset(common, lo=1, hi=2)
            if g.boolean():
                # the checked join sits directly on an order_rows without limit (a step the builder drops there)
                steps.append({"op": "order_rows", "cols": [g.pick(cols_now)], "reverse": [], "limit": None})
            steps.append({"op": "natural_join", "other": other, "on": [[c, c] for c in k], "jointype": g.pick(["inner", "left"]), "check": g.pick([True, "by"])})
    return {"tables": case["tables"], "table": tname, "steps": steps, "expr_mode": "text"}


def chains():
    return st.composite(draw_chain)()


def _apply(step, src_ops, case_tables, mode):
    """Apply one step spec on top of src_ops through the public builder."""
    from data_algebra.view_representations import TableDescription

    nd = dict(step)
    if nd["op"] == "natural_join":
        other = TableDescription(table_name=nd["other"], column_names=[e[0] for e in case_tables[nd["other"]]["cols"]])
        on = [a for a, b in nd["on"]]
        if nd.get("check") == "by":  # deprecated spelling of the same request
            return src_ops.natural_join(b=other, on=on, jointype=nd["jointype"], check_all_common_keys_in_by=True)
        return src_ops.natural_join(b=other, on=on, jointype=nd["jointype"], check_all_common_keys_in_equi_spec=bool(nd.get("check")))
    nd["src"] = 0
    return spec.build_node(nd, {0: src_ops}, {"tables": case_tables}, mode)


def count_nodes(ops) -> int:
    n = 0
    cur = ops
    while len(cur.sources) > 0:
        n += 1
        cur = cur.sources[0]
    return n


def check(case):
    from data_algebra.view_representations import TableDescription

    info = {}
    mode = case.get("expr_mode", "text")
    tables = case["tables"]
    tname = case["table"]
    steps = case["steps"]
    base_cols = [e[0] for e in tables[tname]["cols"]]
    frames = {tn: spec.pandas_frame(tables[tn]) for tn in tables}
    # chained
    chained = TableDescription(table_name=tname, column_names=base_cols)
    chained_fail = None
    for k, st_ in enumerate(steps):
        try:
            chained = _apply(st_, chained, tables, mode)
        except Exception as e:
            chained_fail = (k, f"{type(e).__name__}: {e}")
            break
    # stepwise
    cur = frames[tname]
    step_fail = None
    eval_error = None
    for k, st_ in enumerate(steps):
        if chained_fail is not None and k > chained_fail[0]:
            break
        name = f"step_{k}" if k > 0 else tname
        if st_["op"] == "natural_join" and name == st_["other"]:
            name = name + "_l"
        td = TableDescription(table_name=name, column_names=[str(c) for c in cur.columns])
        try:
            node = _apply(st_, td, tables, mode)
        except Exception as e:
            step_fail = (k, f"{type(e).__name__}: {e}")
            break
        data = {name: cur}
        if st_["op"] == "natural_join":
            data[st_["other"]] = frames[st_["other"]]
        with warnings.catch_warnings():
            warnings.simplefilter("ignore")
            try:
                cur = node.eval(data)
            except Exception as e:
                eval_error = (k, f"{type(e).__name__}: {e}")
                break
    info["chained_rejected"] = chained_fail is not None
    info["stepwise_rejected"] = step_fail is not None
    if eval_error is not None:
        info["eval_error"] = eval_error[1][:80]
        # acceptance can still be compared up to the failing evaluation step
        if chained_fail is not None and chained_fail[0] <= eval_error[0] and step_fail is None and chained_fail[0] < eval_error[0]:
            return (
                Failure(
                    f"chained builder rejects step {chained_fail[0]} ({steps[chained_fail[0]]['op']}: {chained_fail[1]}) which the stepwise builder accepts",
                    {"kind": "chained_rejects", "step": steps[chained_fail[0]]["op"]},
                ),
                info,
            )
        return None, info
    if (chained_fail is None) != (step_fail is None) or (chained_fail and step_fail and chained_fail[0] != step_fail[0]):
        if chained_fail is None:
            k = step_fail[0]
            prev = steps[k - 1]["op"] if k > 0 else "table"
            return (
                Failure(
                    f"chained builder accepts step {k} ({steps[k]['op']} after {prev}) that the stepwise builder rejects: {step_fail[1]}",
                    {"kind": "chained_accepts", "step": steps[k]["op"], "after": prev},
                ),
                info,
            )
        k = chained_fail[0]
        return (
            Failure(
                f"chained builder rejects step {k} ({steps[k]['op']}: {chained_fail[1]}) while the stepwise builder "
                + ("accepts it" if step_fail is None else f"rejects step {step_fail[0]}"),
                {"kind": "chained_rejects", "step": steps[k]["op"]},
            ),
            info,
        )
    if chained_fail is not None:
        return None, info  # both reject the same step
    info["n_steps"] = len(steps)
    info["n_nodes"] = count_nodes(chained)
    data = {tname: frames[tname]}
    for tn in chained.get_tables():
        data[tn] = frames[tn]
    with warnings.catch_warnings():
        warnings.simplefilter("ignore")
        try:
            res = chained.eval(data)
        except Exception as e:
            return (
                Failure(
                    f"chained pipeline fails to evaluate ({type(e).__name__}: {e}) while step-by-step evaluation succeeds",
                    {"kind": "chained_eval_raises", "exc": type(e).__name__},
                ),
                info,
            )
    last = steps[-1]
    ordered_by = list(last["cols"]) if last["op"] == "order_rows" else None
    d = cmp.compare(cmp.normalise(cur), cmp.normalise(res), ordered_by=ordered_by)
    if d is not None:
        kinds = [s["op"] for s in steps]
        return (
            Failure(
                f"chained result differs from step-by-step application: {d}",
                {"kind": "result_differs", "steps": "+".join(kinds)},
                {"stepwise": cmp.brief(cmp.normalise(cur)), "chained": cmp.brief(cmp.normalise(res)), "chained_pipeline": chained.to_python(pretty=False)},
            ),
            info,
        )
    return None, info


def replay(check_name, case):
    f, _ = check(case)
    return f


def run(ctx):
    ev = ctx.ev
    ev.rule = (
        "step lists of 2-7 unary steps (extend incl. windowed, select/drop/rename/map columns, order_rows with and without limit, "
        "select_rows, project) over a table, new column names drawn from a 2-name pool per type so that consecutive extends overwrite and "
        "read each other's outputs; 37% of the lists end in an injected step (select/extend/order on a dropped column, or a join with "
        "check_all_common_keys_in_equi_spec=True); chained build vs step-by-step build on materialised results; non-trivial = the chained "
        "pipeline has fewer nodes than steps (a simplification fired) or a step was rejected; distinct = SHA-1 of the case JSON"
    )
    ev.assumptions = [
        "both sides are evaluated by the Pandas executor (the property is about the builder, so one engine suffices)",
        "an evaluation error on the data (not a builder rejection) ends the comparison for that case and is counted",
        "window orders and limits are total by construction, so step-by-step and chained evaluation are deterministic as multisets",
    ]
    ctx.probe_findings(replay)

    def oracle(case):
        f, info = check(case)
        fired = info.get("n_nodes", 99) < info.get("n_steps", 0)
        rejected = info.get("chained_rejected") or info.get("stepwise_rejected")
        fs = sorted({s["op"] for s in case["steps"]})
        if fired:
            fs.append("simplification_fired")
        if rejected:
            fs.append("rejection")
        kinds = [s["op"] for s in case["steps"]]
        for a, b2 in zip(kinds, kinds[1:]):
            if a == b2 == "extend":
                fs.append("extend_extend")
            if a == "order_rows":
                fs.append("order_then_" + b2)
            if a in ("select_columns", "drop_columns") and b2 == "select_columns":
                fs.append("select_collapse_candidate")
        ev.note(case, bool(fired or rejected), sorted(set(fs)), sample={"table": case["table"], "steps": case["steps"]})
        if "eval_error" in info:
            ev.count("eval_error")
        return f

    ctx.campaign("main", chains(), oracle, max_examples=ctx.n(2400, 320000))
