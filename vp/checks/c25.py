"""C25 — the evaluation result cache (data_algebra.eval_cache) is transparent.

Two campaigns over plain-data *key specs* {"model", "sql", "tables": [[name, frame_spec], ...]} and
frame specs {"cols": [[name, kind, values], ...], "index": None | [labels]}:

* metamorphic: a base key spec and two single-point variants (one cell, column renamed / swapped / added /
  removed, row appended / removed / permuted, table renamed / swapped / added / removed, one SQL character,
  other dialect).  Specs whose *content* differs must get different `make_cache_key`s and a lookup with one
  must miss after a store under the other; re-building the same spec (fresh frames, another model object of
  the same dialect) must give the same key and hit.
* history: store / get / get-then-mutate-the-returned-copy / mutate-the-caller's-frames-after-store, keyed by
  variants of one base spec (near-miss keys by construction), against a dict model.

Three-way classification of two specs (soundness): identical spec -> must share the key / hit; different
content under a dtype-insensitive, null-insensitive canonical form (1 == 1.0, None == NaN, 0.0 == -0.0, index
labels and data-map insertion order ignored) -> must not share a key / must miss; anything in between (same
content, different dtype / null flavour / index labels / insertion order) is left unchecked and counted.
"""

from __future__ import annotations

import copy
import math

from hypothesis import strategies as st

from ..common import Failure, canon

PID = "C25"
SHARDABLE = True

MODELS = ["SQLite", "BigQuery", "PostgreSQL", "MySQL", "SparkSQL"]
KINDS = ["int", "float", "str", "obj"]
POOL = {
    "int": [0, 1, -1, 2, 3, 7, 2**62, -(2**62)],
    "float": [0.0, 1.0, -1.0, 0.5, 2.5, None, -0.0, 1e300, float("inf"), 3.0],
    "str": ["a", "", "b", "A", "ab", None, " a", "None", "nan", "1", "é"],
    "obj": ["a", "", "b", "A", "ab", None, " a", "None", "nan", "1", "é"],
}
COLNAMES = ["x", "y", "z", "X", " x", "x_1", "a', 'b", "0"]
TABNAMES = ["d", "e", "d2", "D", "d "]
SQLS = ['SELECT * FROM "d"', 'SELECT "x" FROM "d"', "", 'SELECT * FROM "d" ', 'select * from "d"', "SELECT 1"]
SQLCHARS = 'ab *"dD1\n'

_MODEL_OBJS = {}


def _model(name, inst):
    """Two long-lived objects per dialect (constructing a model costs ~15 ms); they carry no state."""
    k = (name, inst % 2)
    if k not in _MODEL_OBJS:
        import importlib

        mod = importlib.import_module(f"data_algebra.{name}")
        _MODEL_OBJS[k] = getattr(mod, f"{name}Model")()
    return _MODEL_OBJS[k]


# ---- plain data -> objects ----------------------------------------------------------------------


def build_frame(spec):
    import pandas

    cols = {}
    for name, kind, vals in spec["cols"]:
        if kind == "int":
            cols[name] = pandas.Series(list(vals), dtype="int64")
        elif kind == "float":
            cols[name] = pandas.Series([math.nan if v is None else float(v) for v in vals], dtype="float64")
        elif kind == "str":
            cols[name] = pandas.Series(list(vals), dtype="str")
        else:
            cols[name] = pandas.Series(list(vals), dtype=object)
    d = pandas.DataFrame(cols)
    idx = spec.get("index")
    if idx is not None and len(spec["cols"]) > 0:
        d.index = list(idx)
    return d


def build_key(spec, inst=0):
    """kwargs for make_cache_key / get / store, built from scratch."""
    data_map = {}
    for tname, fs in spec["tables"]:
        data_map[tname] = build_frame(fs)
    return {"db_model": _model(spec["model"], inst), "sql": spec["sql"], "data_map": data_map}


def _nrows(fs):
    return len(fs["cols"][0][2]) if fs["cols"] else 0


def _cv(v):
    if v is None:
        return ["null"]
    if isinstance(v, float):
        if math.isnan(v):
            return ["null"]
        if math.isinf(v):
            return ["n", "inf" if v > 0 else "-inf"]
        if v.is_integer():
            return ["n", str(int(v))]
        return ["n", repr(v)]
    if isinstance(v, bool):
        return ["n", str(int(v))]
    if isinstance(v, int):
        return ["n", str(v)]
    return ["s", v]


def content_frame(fs):
    return [_nrows(fs), [[name, [_cv(v) for v in vals]] for name, _, vals in fs["cols"]]]


def content_key(spec) -> str:
    """dtype/null-flavour/index/insertion-order insensitive content of a key spec."""
    tabs = sorted([[t, content_frame(fs)] for t, fs in spec["tables"]], key=lambda p: p[0])
    return canon([spec["model"], spec["sql"], tabs])


def exact_key(spec) -> str:
    return canon([spec["model"], spec["sql"], spec["tables"]])


def valid_spec(spec) -> bool:
    names = [t for t, _ in spec["tables"]]
    if len(set(names)) != len(names):
        return False
    for _, fs in spec["tables"]:
        cn = [c[0] for c in fs["cols"]]
        if len(set(cn)) != len(cn):
            return False
        if len({len(c[2]) for c in fs["cols"]}) > 1:
            return False
        if fs.get("index") is not None and len(fs["index"]) != _nrows(fs):
            return False
    return True


# ---- variants (pure functions on specs) ---------------------------------------------------------


def _fresh(pool, used, k):
    for i in range(len(pool)):
        c = pool[(k + i) % len(pool)]
        if c not in used:
            return c
    return None


def apply_variant(spec, var):
    """Single-point variant of a key spec; always returns a valid spec (possibly the unchanged one)."""
    s = copy.deepcopy(spec)
    if var is None:
        return s
    name = var[0]
    tabs = s["tables"]
    nt = len(tabs)

    def tab(i):
        return tabs[i % nt][1]

    if name == "none":
        return s
    if name == "model":
        others = [m for m in MODELS if m != s["model"]]
        s["model"] = others[var[1] % len(others)]
        return s
    if name in ("sql_sub", "sql_ins", "sql_del"):
        q = s["sql"]
        ch = SQLCHARS[var[2] % len(SQLCHARS)] if len(var) > 2 else ""
        if name == "sql_ins":
            p = var[1] % (len(q) + 1)
            s["sql"] = q[:p] + ch + q[p:]
        elif q:
            p = var[1] % len(q)
            s["sql"] = q[:p] + (ch if name == "sql_sub" else "") + q[p + 1 :]
        return s
    if name == "sql_ws":
        # one white-space run of the SQL text changed in kind or length (blank -> two blanks / tab / line break)
        q = s["sql"]
        ws = [i for i, ch in enumerate(q) if ch in " \t\n"]
        if ws:
            p = ws[var[1] % len(ws)]
            s["sql"] = q[:p] + [q[p] * 2, "\t", "\n", " \n "][var[2] % 4] + q[p + 1 :]
            if s["sql"] == q:
                s["sql"] = q[:p] + "  " + q[p + 1 :]
        return s
    if name == "add_table":
        nn = _fresh(TABNAMES, [t for t, _ in tabs], var[1])
        if nn is not None:
            fs = copy.deepcopy(tab(var[1])) if nt else {"cols": [["x", "int", [1]]], "index": None}
            tabs.append([nn, fs])
        return s
    if nt == 0:
        return s
    if name == "del_table":
        del tabs[var[1] % nt]
        return s
    if name == "rename_table":
        nn = _fresh(TABNAMES, [t for t, _ in tabs], var[2])
        if nn is not None:
            tabs[var[1] % nt][0] = nn
        return s
    if name == "swap_tables":
        i, j = var[1] % nt, var[2] % nt
        j = (i + 1) % nt if i == j else j
        tabs[i][1], tabs[j][1] = tabs[j][1], tabs[i][1]
        return s
    if name == "reorder_tables":
        tabs.reverse()
        return s
    if name == "swap_tables_reorder":
        # the frames change names AND the map is built in the other insertion order: a key that pairs names and
        # frames by position instead of by name cannot tell the two maps apart
        i, j = var[1] % nt, var[2] % nt
        j = (i + 1) % nt if i == j else j
        tabs[i][1], tabs[j][1] = tabs[j][1], tabs[i][1]
        tabs.reverse()
        return s
    fs = tab(var[1])
    cols = fs["cols"]
    nc, nr = len(cols), _nrows(fs)
    if name == "add_col":
        nn = _fresh(COLNAMES, [c[0] for c in cols], var[2])
        if nn is not None:
            kind = KINDS[var[3] % len(KINDS)]
            rows = nr if nc else 1 + var[4] % 2
            pool = POOL[kind]
            cols.insert(var[2] % (nc + 1), [nn, kind, [pool[(var[4] + 3 * r) % len(pool)] for r in range(rows)]])
            if not nc:
                fs["index"] = None
        return s
    if name == "add_row":
        if nc:
            for ci, c in enumerate(cols):
                pool = POOL[c[1]]
                c[2].append(pool[var[2 + ci % (len(var) - 2)] % len(pool)])
            if fs.get("index") is not None:
                fs["index"].append(max(fs["index"], default=-1) + 1)
        return s
    if nc == 0:
        return s
    if name == "del_col":
        del cols[var[2] % nc]
        if not cols:
            fs["index"] = None
        return s
    if name == "rename_col":
        nn = _fresh(COLNAMES, [c[0] for c in cols], var[3])
        if nn is not None:
            cols[var[2] % nc][0] = nn
        return s
    if name == "swap_cols":
        i, j = var[2] % nc, var[3] % nc
        j = (i + 1) % nc if i == j else j
        cols[i], cols[j] = cols[j], cols[i]
        return s
    if name == "swap_col_names":
        i, j = var[2] % nc, var[3] % nc
        j = (i + 1) % nc if i == j else j
        cols[i][0], cols[j][0] = cols[j][0], cols[i][0]
        return s
    if name == "retype_col":
        c = cols[var[2] % nc]
        if c[1] == "int" and all(abs(v) < 2**53 for v in c[2]):
            c[1], c[2] = "float", [float(v) for v in c[2]]
        elif c[1] == "str":
            c[1] = "obj"
        elif c[1] == "obj":
            c[1] = "str"
        return s
    if nr == 0:
        return s
    if name == "cell":
        c = cols[var[2] % nc]
        r = var[3] % nr
        pool = POOL[c[1]]
        k = var[4] % len(pool)
        if _cv(pool[k]) == _cv(c[2][r]):  # make the variant a real change of value whenever possible
            k = (k + 1) % len(pool)
        c[2][r] = pool[k]
        return s

    def perm_rows(p):
        for c in cols:
            c[2] = [c[2][i] for i in p]

    if name == "del_row":
        r = var[2] % nr
        for c in cols:
            del c[2][r]
        if fs.get("index") is not None:
            del fs["index"][r]
        return s
    if name in ("swap_rows", "swap_rows_with_index"):
        i, j = var[2] % nr, var[3] % nr
        j = (i + 1) % nr if i == j else j
        p = list(range(nr))
        p[i], p[j] = p[j], p[i]
        perm_rows(p)
        if name == "swap_rows_with_index":  # like d.iloc[p]: the index labels travel with the rows
            base = fs["index"] if fs.get("index") is not None else list(range(nr))
            fs["index"] = [base[k] for k in p]
        return s
    if name == "reverse_rows":
        perm_rows(list(range(nr))[::-1])
        return s
    if name == "rotate_rows":
        k = var[2] % nr
        perm_rows(list(range(nr))[k:] + list(range(nr))[:k])
        return s
    raise ValueError(f"unknown variant {var!r}")


# ---- comparing frames ---------------------------------------------------------------------------


def frame_diff(exp, got):
    """None when `got` is a frame equal to `exp` (labels, shape, dtypes, values with nulls aligned)."""
    import pandas

    if not isinstance(got, pandas.DataFrame):
        return f"not a DataFrame: {type(got)}"
    if list(got.columns) != list(exp.columns):
        return f"columns {list(got.columns)!r} != {list(exp.columns)!r}"
    if got.shape != exp.shape:
        return f"shape {got.shape} != {exp.shape}"
    if [str(t) for t in got.dtypes] != [str(t) for t in exp.dtypes]:
        return f"dtypes {[str(t) for t in got.dtypes]} != {[str(t) for t in exp.dtypes]}"
    if not exp.equals(got):
        return f"values differ: got {got.to_dict(orient='list')!r}, stored {exp.to_dict(orient='list')!r}"
    return None


def _call(fn, **kw):
    """-> ('ok', value) | ('miss', None) | ('raised', exc)"""
    try:
        return "ok", fn(**kw)
    except KeyError:
        return "miss", None
    except Exception as e:  # noqa
        return "raised", e


# ---- metamorphic oracle -------------------------------------------------------------------------


def check_variants(case, note=None) -> "Failure | None":
    from data_algebra.eval_cache import ResultCache, make_cache_key

    base = case["base"]
    if not valid_spec(base):
        raise ValueError("malformed case: invalid base spec")
    specs = [("base", base)]
    for i, var in enumerate(case["variants"]):
        specs.append((f"{var[0]}#{i}", apply_variant(base, var)))
    for _, sp in specs:
        if not valid_spec(sp):
            raise ValueError(f"variant produced an invalid spec: {sp!r}")
    keys = []
    built = []  # lookup arguments per spec, reused for the cache lookups below (never handed to store)
    for nm, sp in specs:
        built.append(build_key(sp, 0))
        st1, k = _call(make_cache_key, **built[-1])
        if st1 != "ok":
            if note is not None:
                note(case, False, ["make_cache_key_raised"])
            return Failure(f"make_cache_key raised {k!r} for {nm}: {sp!r}", {"kind": "raised", "where": "make_cache_key"})
        keys.append(k)
    feats = set()
    nontrivial = False
    fail = None
    # same spec, fresh frames, the other model object of the same dialect: the key must be reproducible
    st2, k0b = _call(make_cache_key, **build_key(base, 1))
    if st2 != "ok" or k0b != keys[0] or hash(k0b) != hash(keys[0]):
        fail = Failure(
            f"key not reproducible for an identically rebuilt data map: {keys[0]!r} vs {k0b!r}",
            {"kind": "key_unstable"},
        )
    for i in range(len(specs)):
        for j in range(i + 1, len(specs)):
            (ni, si), (nj, sj) = specs[i], specs[j]
            vname = nj.split("#")[0] if i == 0 else "variant_vs_variant"
            if content_key(si) != content_key(sj):
                nontrivial = True
                feats.add(f"differs:{vname}")
                if keys[i] == keys[j] and fail is None:
                    fail = Failure(
                        f"different data maps share a cache key ({ni} vs {nj}): {si!r} / {sj!r} -> {keys[i]!r}",
                        {"kind": "key_collision", "variant": vname},
                    )
            elif exact_key(si) == exact_key(sj):
                feats.add(f"identical:{vname}")
                if keys[i] != keys[j] and fail is None:
                    fail = Failure(f"identical specs got different keys ({ni} vs {nj})", {"kind": "key_unstable"})
            else:
                feats.add(f"unchecked_same_content:{vname}")
    if fail is None:
        # the same through the cache object: store under the base key, look up with every spec
        cache = ResultCache()
        res_spec = case.get("res") or {"cols": [["r", "int", [1, 2]]], "index": None}
        res = build_frame(res_spec)
        stt, e = _call(cache.store, res=res, **build_key(base, 0))
        if stt != "ok":
            fail = Failure(f"store raised {e!r}", {"kind": "raised", "where": "store"})
        for (nm, sp), kw in zip(specs if fail is None else [], built):
            stt, got = _call(cache.get, **dict(kw, db_model=_model(sp["model"], 1)))
            vname = nm.split("#")[0]
            if stt == "raised":
                fail = Failure(f"get raised {got!r} for {nm}", {"kind": "raised", "where": "get"})
            elif content_key(sp) != content_key(base):
                if stt == "ok":
                    fail = Failure(
                        f"lookup with a different data map / SQL / dialect ({nm}) hit the entry stored for the base: "
                        f"base={base!r} lookup={sp!r}",
                        {"kind": "false_hit", "variant": vname},
                    )
            elif exact_key(sp) == exact_key(base):
                if stt == "miss":
                    fail = Failure(f"lookup with the identically rebuilt key missed ({nm})", {"kind": "miss"})
                else:
                    d = frame_diff(build_frame(res_spec), got)
                    if d is not None:
                        fail = Failure(f"lookup returned a frame different from the stored one: {d}", {"kind": "wrong_result"})
                    elif got is res:
                        fail = Failure("lookup returned the caller's object, not a copy", {"kind": "not_a_copy"})
            if fail is not None:
                break
    if note is not None:
        note(case, nontrivial, sorted(feats))
    return fail


# ---- history oracle -----------------------------------------------------------------------------


def mutate_frame(df, mut):
    """In-place change of a real frame; returns a short description (always changes the frame)."""
    import pandas

    name = mut[0]
    nr, nc = df.shape
    if name == "set_cell" and nr and nc:
        r, c = mut[1] % nr, mut[2] % nc
        cur = df.iloc[r, c]
        dt = str(df.dtypes.iloc[c])
        if dt.startswith("int"):
            cands = [5, 6]
        elif dt.startswith("float"):
            cands = [5.5, 6.5]
        else:
            cands = ["m1", "m2"]
        val = cands[0] if (pandas.isna(cur) or cur != cands[0]) else cands[1]
        df.iloc[r, c] = val
        return "set_cell"
    if name == "drop_col" and nc:
        df.drop(columns=[df.columns[mut[1] % nc]], inplace=True)
        return "drop_col"
    if name == "rename_col" and nc:
        old = df.columns[mut[1] % nc]
        df.rename(columns={old: str(old) + "_m"}, inplace=True)
        return "rename_col"
    if name == "drop_row" and nr:
        df.drop(index=df.index[mut[1] % nr], inplace=True)
        return "drop_row"
    if name == "np_write" and nr and nc:
        c = mut[2] % nc
        try:
            arr = df[df.columns[c]].values
            arr[mut[1] % nr] = arr[(mut[1] + 1) % nr] if nr > 1 else arr[0]
            if str(arr.dtype).startswith(("int", "float")):
                arr[mut[1] % nr] = 9
            name = "np_write+add_col"
        except (ValueError, TypeError):
            name = "np_write_refused+add_col"  # read-only view under copy-on-write
    else:
        name = "add_col"
    df["m__"] = list(range(nr))
    if nr == 0:
        df.rename(columns={df.columns[0]: str(df.columns[0]) + "_m"}, inplace=True)
    return name


class HState:
    def __init__(self, base, results):
        from data_algebra.eval_cache import ResultCache

        self.base = base
        self.results = results
        self.cache = ResultCache()
        self.model = {}  # content_key -> {"exact": {exact_key: spec}, "res": frame_spec}
        self.stores = []  # (data_map of caller frames, caller res frame)
        self.n_gets_after_two = 0
        self.lookup_args = {}
        self.feats = set()

    def spec_of(self, var):
        return apply_variant(self.base, var)


def _expect(s: HState, spec):
    """'miss' | ('hit', res_spec) | 'unchecked'"""
    ck = content_key(spec)
    ent = s.model.get(ck)
    if ent is None:
        return "miss"
    if set(ent["exact"]) == {exact_key(spec)}:
        return ("hit", ent["res"])
    return "unchecked"


def _check_get(s: HState, spec, inst, where, reuse=False):
    """Perform one lookup and compare with the model. -> (Failure | None, returned frame | None)
    reuse=True (the sweep over all entries): lookup arguments are built once per history and spec; these
    frames are never handed to store nor mutated by the harness."""
    exp = _expect(s, spec)
    if reuse:
        ek = exact_key(spec)
        if ek not in s.lookup_args:
            s.lookup_args[ek] = build_key(spec, inst)
        kw = s.lookup_args[ek]
    else:
        kw = build_key(spec, inst)
    stt, got = _call(s.cache.get, **kw)
    if len(s.model) >= 2:
        s.n_gets_after_two += 1
    if stt == "raised":
        return Failure(f"get raised {got!r} ({where})", {"kind": "raised", "where": "get"}), None
    if exp == "unchecked":
        s.feats.add("unchecked_same_content")
        return None, got
    if exp == "miss":
        if stt == "ok":
            return (
                Failure(
                    f"lookup hit although nothing with this dialect/SQL/data was stored ({where}): {spec!r}",
                    {"kind": "false_hit"},
                ),
                got,
            )
        return None, None
    if stt == "miss":
        return Failure(f"lookup missed a stored key ({where}): {spec!r}", {"kind": "miss"}), None
    d = frame_diff(build_frame(exp[1]), got)
    if d is not None:
        return (
            Failure(
                f"lookup result differs from what was stored under this key ({where}): {d} "
                "[the cached entry was changed from outside or overwritten by a store under a different key]",
                {"kind": "cache_changed"},
            ),
            got,
        )
    return None, got


def _check_all(s: HState, where):
    for ck in sorted(s.model):
        ent = s.model[ck]
        if len(ent["exact"]) != 1:
            continue
        spec = next(iter(ent["exact"].values()))
        f, _ = _check_get(s, spec, 1, where, reuse=True)
        if f is not None:
            return f
    return None


def apply_op(s: HState, op) -> "Failure | None":
    name = op[0]
    s.feats.add(name)
    if name == "store":
        _, var, ri, inst = op
        spec = s.spec_of(var)
        res_spec = s.results[ri % len(s.results)]
        kw = build_key(spec, inst)
        res = build_frame(res_spec)
        stt, e = _call(s.cache.store, res=res, **kw)
        if stt != "ok":
            return Failure(f"store raised {e!r}", {"kind": "raised", "where": "store"})
        s.stores.append((kw["data_map"], res))
        ent = s.model.setdefault(content_key(spec), {"exact": {}, "res": None})
        ent["exact"][exact_key(spec)] = spec
        ent["res"] = res_spec
        f, _ = _check_get(s, spec, 1 - inst % 2, f"right after store {var!r}")
        return f
    if name == "get":
        _, var, inst = op
        f, _ = _check_get(s, s.spec_of(var), inst, f"get {var!r}")
        return f
    if name == "get_mutate":
        _, var, mut = op
        f, got = _check_get(s, s.spec_of(var), 0, f"get {var!r}")
        if f is not None:
            return f
        if got is None:
            return None
        how = mutate_frame(got, mut)
        s.feats.add(f"mutate_returned:{how}")
        return _check_all(s, f"after mutating a returned copy ({how})")
    if name == "mutate_caller":
        _, si, target, mut = op
        if not s.stores:
            return None
        dm, res = s.stores[si % len(s.stores)]
        if target == 0 or not dm:
            df, what = res, "res"
        else:
            tn = sorted(dm)[(target - 1) % len(dm)]
            df, what = dm[tn], "table"
        how = mutate_frame(df, mut)
        s.feats.add(f"mutate_caller_{what}:{how}")
        return _check_all(s, f"after mutating the caller's {what} frame of store #{si % len(s.stores)} ({how})")
    raise ValueError(f"unknown op {op!r}")


def check_history(case, note=None) -> "Failure | None":
    if not valid_spec(case["base"]):
        raise ValueError("malformed case: invalid base spec")
    s = HState(case["base"], case["results"])
    fail = None
    for op in case["ops"]:
        fail = apply_op(s, op)
        if fail is not None:
            break
    if fail is None:
        fail = _check_all(s, "at the end of the history")
    if note is not None:
        if len(s.model) >= 2:
            s.feats.add("near_miss_keys>=2")
        note(case, s.n_gets_after_two > 0, sorted(s.feats))
    return fail


# ---- strategies ---------------------------------------------------------------------------------

_I = st.integers(0, 59)


def _spread(options):
    k = len(options)
    return st.integers(0, 997 * k - 1).map(lambda i: options[i % k])


@st.composite
def _frame(draw, max_cols=3, max_rows=4, min_cols=0):
    nc = draw(st.integers(min_cols, max_cols))
    nr = draw(_spread([2, 3, 1, max_rows, 0, 2, 3]))
    names = draw(st.permutations(COLNAMES))[:nc]
    cols = []
    for nm in names:
        kind = draw(_spread(KINDS))
        pool = POOL[kind]
        vals = [pool[i % len(pool)] for i in draw(st.lists(st.integers(0, len(pool) - 1), min_size=nr, max_size=nr))]
        cols.append([nm, kind, vals])
    return {"cols": cols, "index": None}


@st.composite
def _key_spec(draw):
    nt = draw(st.sampled_from([1, 1, 2, 2, 2, 0, 3]))
    names = draw(st.permutations(TABNAMES))[:nt]
    tables = [[nm, draw(_frame(min_cols=0 if draw(st.integers(0, 9)) == 0 else 1))] for nm in names]
    sql = draw(st.one_of(st.sampled_from(SQLS), st.text(alphabet=SQLCHARS, max_size=6)))
    return {"model": draw(_spread(MODELS)), "sql": sql, "tables": tables}


_variant = st.one_of(
    st.tuples(st.just("cell"), _I, _I, _I, _I),
    st.tuples(st.just("cell"), _I, _I, _I, _I),
    st.tuples(st.just("rename_col"), _I, _I, _I),
    st.tuples(st.just("swap_cols"), _I, _I, _I),
    st.tuples(st.just("swap_col_names"), _I, _I, _I),
    st.tuples(st.just("add_col"), _I, _I, _I, _I),
    st.tuples(st.just("del_col"), _I, _I),
    st.tuples(st.just("add_row"), _I, _I, _I, _I),
    st.tuples(st.just("del_row"), _I, _I),
    st.tuples(st.just("swap_rows"), _I, _I, _I),
    st.tuples(st.just("swap_rows"), _I, _I, _I),
    st.tuples(st.just("swap_rows_with_index"), _I, _I, _I),
    st.tuples(st.just("reverse_rows"), _I),
    st.tuples(st.just("rotate_rows"), _I, _I),
    st.tuples(st.just("rename_table"), _I, _I),
    st.tuples(st.just("swap_tables"), _I, _I),
    st.tuples(st.just("swap_tables_reorder"), _I, _I),
    st.tuples(st.just("swap_tables_reorder"), _I, _I),
    st.tuples(st.just("add_table"), _I),
    st.tuples(st.just("del_table"), _I),
    st.tuples(st.just("reorder_tables")),
    st.tuples(st.just("sql_sub"), _I, _I),
    st.tuples(st.just("sql_ins"), _I, _I),
    st.tuples(st.just("sql_ws"), _I, _I),
    st.tuples(st.just("sql_ws"), _I, _I),
    st.tuples(st.just("sql_del"), _I),
    st.tuples(st.just("model"), _I),
    st.tuples(st.just("retype_col"), _I, _I),
).map(list)

_meta_case = st.fixed_dictionaries(
    {"base": _key_spec(), "variants": st.lists(_variant, min_size=1, max_size=2), "res": _frame(min_cols=1)}
)

_mut = st.one_of(
    st.tuples(st.just("set_cell"), _I, _I),
    st.tuples(st.just("set_cell"), _I, _I),
    st.tuples(st.just("drop_col"), _I),
    st.tuples(st.just("rename_col"), _I),
    st.tuples(st.just("drop_row"), _I),
    st.tuples(st.just("np_write"), _I, _I),
    st.tuples(st.just("add_col")),
).map(list)

_var_or_none = st.one_of(st.none(), _variant)
# a few key variants shared by the ops of one history, so that stores and lookups meet
_op = lambda vs: st.one_of(  # noqa: E731
    st.tuples(st.just("store"), vs, _I, st.integers(0, 1)),
    st.tuples(st.just("store"), vs, _I, st.integers(0, 1)),
    st.tuples(st.just("get"), vs, st.integers(0, 1)),
    st.tuples(st.just("get"), vs, st.integers(0, 1)),
    st.tuples(st.just("get_mutate"), vs, _mut),
    st.tuples(st.just("mutate_caller"), _I, st.integers(0, 2), _mut),
).map(list)


@st.composite
def _hist_case(draw):
    base = draw(_key_spec())
    results = draw(st.lists(_frame(min_cols=1), min_size=1, max_size=3))
    vpool = [None] + draw(st.lists(_variant, min_size=1, max_size=4))
    ops = draw(st.lists(_op(st.sampled_from(vpool)), min_size=2, max_size=10))
    # most histories open with stores under the base key and under its first variants (near-miss keys)
    npre = draw(st.sampled_from([2, 0, 2, 3, 2]))
    pre = [["store", vpool[i % len(vpool)], draw(_I), i % 2] for i in range(npre)]
    ops = pre + ops
    return {"base": base, "results": results, "ops": ops}


# ---- fixed probes of the region the oracle leaves unchecked (recorded in the evidence, never a verdict) ----


def _observations():
    import pandas

    from data_algebra.eval_cache import hash_data_frame

    def same(a, b):
        try:
            return bool(hash_data_frame(a) == hash_data_frame(b))
        except Exception as e:  # noqa
            return f"raised {type(e).__name__}"

    o = lambda xs: pandas.DataFrame({"x": pandas.Series(xs, dtype=object)})  # noqa: E731
    return {
        "same_hash:bool_column[True,False]_vs_int_column[1,0] (same content, other dtype: unchecked)": same(
            pandas.DataFrame({"x": [True, False]}), pandas.DataFrame({"x": [1, 0]})
        ),
        "same_hash:int_column[1,2]_vs_float_column[1.0,2.0] (same content, other dtype: unchecked)": same(
            pandas.DataFrame({"x": [1, 2]}), pandas.DataFrame({"x": [1.0, 2.0]})
        ),
        "same_hash:mixed_object_column[1,'a']_vs['1','a'] (mixed-type column: outside the domain)": same(
            o([1, "a"]), o(["1", "a"])
        ),
    }


# ---- entry points -------------------------------------------------------------------------------


def replay(check, case):
    if check == "history":
        return check_history(case)
    return check_variants(case)


def run(ctx):
    ev = ctx.ev
    ev.rule = (
        "key specs = dialect (5 model classes) x SQL text x data map of 0-3 tables (0-3 int/float/str/object columns, "
        "0-4 rows, nulls, look-alike strings 'None'/'nan'/'1'). metamorphic cases: a base spec and 1-2 single-point "
        "variants (24 kinds: cell, column rename/swap/add/remove/retype, row add/remove/swap/reverse/rotate, table "
        "rename/swap/add/remove/reorder, one SQL character substituted/inserted/deleted, other dialect), all pairs "
        "compared; non-trivial = at least one pair with different content (key inequality and cache miss actually "
        "demanded). history cases: 0-3 opening stores (base key, then its first variants) + 2-10 ops store/get/get+mutate-returned-copy/mutate-caller's-frame over a pool of "
        "up to 5 near-miss variants of one base spec, checked against a dict model; non-trivial = a lookup executed "
        "while >= 2 distinct near-miss keys are stored. distinct = SHA-1 of the case."
    )
    ev.assumptions = [
        "hit direction: only a lookup whose spec is identical to a stored one (fresh frames, any model object of the "
        "same dialect class) is required to hit and to return a frame equal in labels, shape, dtypes and values",
        "miss direction: required only when the content differs under a dtype-, null-flavour-, index-label- and "
        "insertion-order-insensitive canonical form (1 vs 1.0, None vs NaN, 0.0 vs -0.0, empty int vs empty str column "
        "are NOT required to differ); such pairs are counted as unchecked_same_content",
        "columns are uniformly typed (int64, float64, str, object-with-strings), as data_algebra's own type model "
        "requires (util.guess_column_types / compatible_types: one scalar type per column); mixed-type object columns "
        "are outside the domain (pandas hashes them via str(), so [1,'a'] and ['1','a'] share a hash - recorded under "
        "coverage.unchecked_region_probes, not judged); column and table names are distinct strings; default "
        "RangeIndex except for the swap_rows_with_index variant",
        "dialect = model class (str(db_model)); two configured instances of one class are the same dialect",
        "a lookup miss is a KeyError (docstring of ResultCache.get); any other exception from get/store/make_cache_key "
        "is reported",
        "numpy-level writes through .values are attempted but refused by pandas copy-on-write; the `dirty` flag and the "
        "debugging data_cache are not part of the property",
    ]
    ev.trusted_base = ["pandas DataFrame.equals for value comparison", "content_key/exact_key canonical forms in vp/checks/c25.py"]
    ctx.probe_findings(replay)
    ev.extra["unchecked_region_probes"] = _observations()

    def meta_oracle(case):
        return check_variants(case, note=ev.note)

    def hist_oracle(case):
        return check_history(case, note=ev.note)

    ctx.campaign("variants", _meta_case, meta_oracle, max_examples=ctx.n(1000, 340_000))
    ctx.campaign("history", _hist_case(), hist_oracle, max_examples=ctx.n(500, 140_000))
