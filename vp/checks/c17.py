"""C17 — record transforms (cdata) are invertible, compose as documented, and agree between Pandas and Polars.

One case = one family of strict record specifications over the same content keys and record keys,
plus a set of records given as plain data. From that plain data the harness writes down every form
of the table itself (row form, block form of each specification), so the original of every round
trip and the input of every transform is built without the code under test.

Checked relations (exactly the sentences of the property):
  inverse   m.inverse().transform(m.transform(x)) == x      (blocks->rows->blocks, rows->blocks->rows,
                                                              blocks->blocks'->blocks)
  compose   m2.compose(m1).transform(x) == m2.transform(m1.transform(x)), same for m1 >> m2
            (documented in RecordMap.compose and ShiftPipeAction.__rshift__: a >> b is b.act_on(a))
  engines   m.transform(pandas x) == m.transform(polars x) for every transform executed above
  pipeline  TableDescription(...).convert_records(m).eval({"d": x}) == m.transform(x)
plus one reference relation ("transforming to the other form"): the result of a base transform is the
other form of the same records as written down by the harness.
All comparisons: same column set, same multiset of rows, tolerant floats, null == NaN (vp.cmp).

Generator flags a known finding can close (ctx.closed): "polars_cdata" (no Polars step is run),
"compose_row_side" (no composite whose input or output is the row form), "compose_lossy_to_rows"
(no composite of a content-key-dropping block->block map followed by a ->rows map).
Replays of the two compose defects found while building this check: replays/C17/open-compose-*.json.
"""

from __future__ import annotations

from hypothesis import strategies as st

from .. import cmp
from ..common import Failure

PID = "C17"
SHARDABLE = True

# generator flags that known findings may close (known_findings.json "flags")
FLAG_POLARS = "polars_cdata"  # Polars half of the check
FLAG_COMPOSE_ROW_SIDE = "compose_row_side"  # composites whose input or output is the row form
FLAG_COMPOSE_LOSSY_ROWS = "compose_lossy_to_rows"  # (blocks -> fewer content keys) then (-> rows)

# disjoint name pools: record keys / control-table key columns / value columns / content keys
RK_POOL = ["id", "g", "rec id"]
KC_POOL = ["k", "k2", "row", "Key"]
VC_POOL = ["v", "w", "x", "val 1", "z", "y"]
CONTENT_POOL = ["a", "b", "c", "d", "e", "f", "h", "i", "j", "l", "n", "o", "T_E", "a b", "é", "A"]

STR_CELLS = ["", "a", "b", "x y", "NA", "nan", "None", "a value", "é", "0", "1.5", "id"]
STR_KEYS = ["p", "q", "r", "s", "", "a"]
CT_STR_KEYS = ["x", "y", "z", "t", "u v", "a", "b", "", "X", "10", "q", "r", "é", "k"]


# ---- plain-data tables -------------------------------------------------------------------------
# table = {"cols": [names], "types": ["i"|"f"|"s"], "rows": [[cells]]}


def _shuffle(rows, perm):
    """Deterministic row shuffle: stable sort by the cyclically repeated small ints of `perm`."""
    if not perm:
        return list(rows)
    order = sorted(range(len(rows)), key=lambda i: (perm[i % len(perm)], i))
    return [rows[i] for i in order]


def _permute_cols(tbl, colperm):
    """Deterministic column permutation (same idea as _shuffle): a data table may list its columns in any order; record
    maps address columns by name."""
    if not colperm:
        return tbl
    n = len(tbl["cols"])
    order = sorted(range(n), key=lambda j: (colperm[j % len(colperm)], j))
    return {"cols": [tbl["cols"][j] for j in order], "types": [tbl["types"][j] for j in order], "rows": [[r[j] for j in order] for r in tbl["rows"]]}


def spec_columns(case, sp):
    cols = [r["name"] for r in case["rk"]] + list(sp["kc"]) + list(sp["vc"])
    types = [r["type"] for r in case["rk"]] + list(sp["kt"])
    for j in range(len(sp["vc"])):
        types.append(case["ctypes"][sp["layout"][0][j]])
    return cols, types


def spec_content(sp):
    return [i for row in sp["layout"] for i in row]


def block_table(case, sp, perm):
    """Block form of the case's records under specification sp (complete blocks)."""
    cols, types = spec_columns(case, sp)
    rows = []
    for rec in case["records"]:
        for i, krow in enumerate(sp["keys"]):
            rows.append(list(rec["key"]) + list(krow) + [rec["vals"][c] for c in sp["layout"][i]])
    return _permute_cols({"cols": cols, "types": types, "rows": _shuffle(rows, perm)}, case.get("colperm"))


def row_table(case, content, perm):
    """Row form of the case's records restricted to the content keys (indices) `content`."""
    cols = [r["name"] for r in case["rk"]] + [case["ckeys"][c] for c in content]
    types = [r["type"] for r in case["rk"]] + [case["ctypes"][c] for c in content]
    rows = [list(rec["key"]) + [rec["vals"][c] for c in content] for rec in case["records"]]
    return _permute_cols({"cols": cols, "types": types, "rows": _shuffle(rows, perm)}, case.get("colperm"))


def norm_table(tbl):
    return list(tbl["cols"]), [[cmp.norm_cell(v) for v in r] for r in tbl["rows"]]


def to_pandas(tbl):
    import pandas as pd

    data = {}
    for j, (c, t) in enumerate(zip(tbl["cols"], tbl["types"])):
        vals = [r[j] for r in tbl["rows"]]
        if t == "i":
            data[c] = pd.Series(vals, dtype="int64")
        elif t == "f":
            data[c] = pd.Series(vals, dtype="float64")
        else:
            try:
                data[c] = pd.Series(vals, dtype="str")
            except TypeError:
                data[c] = pd.Series(vals, dtype=object)
    return pd.DataFrame(data)


def to_polars(tbl):
    import polars as pl

    tmap = {"i": pl.Int64, "f": pl.Float64, "s": pl.String}
    schema = {c: tmap[t] for c, t in zip(tbl["cols"], tbl["types"])}
    data = {c: [r[j] for r in tbl["rows"]] for j, c in enumerate(tbl["cols"])}
    return pl.DataFrame(data, schema=schema)


# ---- building the objects under test ---------------------------------------------------------------


def control_table_dict(case, sp):
    d = {}
    for j, c in enumerate(sp["kc"]):
        d[c] = [krow[j] for krow in sp["keys"]]
    for j, c in enumerate(sp["vc"]):
        d[c] = [case["ckeys"][row[j]] for row in sp["layout"]]
    cp = case.get("ct_colperm")
    if cp:
        # control tables may list their columns in any order (key columns need not come first)
        names = list(d)
        order = sorted(range(len(names)), key=lambda j: (cp[j % len(cp)], j))
        d = {names[j]: d[names[j]] for j in order}
    return d


def build_spec(case, sp, backend="pandas"):
    from data_algebra.cdata import RecordSpecification

    d = control_table_dict(case, sp)
    if backend == "pandas":
        import pandas as pd

        ct = pd.DataFrame(d)
    else:
        import polars as pl

        ct = pl.DataFrame(d)
    return RecordSpecification(ct, record_keys=[r["name"] for r in case["rk"]], control_table_keys=list(sp["kc"]))


def is_long(case, sp):
    """Keyed-column shape produced by the convenience constructors: key column holds the content names."""
    return (
        len(sp["kc"]) == 1
        and len(sp["vc"]) == 1
        and sp["kt"] == ["s"]
        and [k[0] for k in sp["keys"]] == [case["ckeys"][r[0]] for r in sp["layout"]]
    )


def base_map(case, idx_in, idx_out, specs, via):
    """RecordMap from form idx_in to form idx_out (None = row form) built the way `via` says."""
    import data_algebra.cdata as cdata

    rk = [r["name"] for r in case["rk"]]
    if idx_in is not None and idx_out is not None:
        return cdata.RecordMap(blocks_in=specs[idx_in], blocks_out=specs[idx_out])
    idx = idx_in if idx_in is not None else idx_out
    sp = case["specs"][idx]
    to_rows = idx_in is not None
    if is_long(case, sp) and via in ("pivot_specification", "pivot_blocks"):
        names = [case["ckeys"][r[0]] for r in sp["layout"]]
        if via == "pivot_specification":
            fn = cdata.pivot_specification if to_rows else cdata.unpivot_specification
            return fn(row_keys=rk, col_name_key=sp["kc"][0], col_value_key=sp["vc"][0], value_cols=names)
        fn = cdata.pivot_blocks_to_rowrecs if to_rows else cdata.pivot_rowrecs_to_blocks
        return fn(
            attribute_key_column=sp["kc"][0],
            attribute_value_column=sp["vc"][0],
            record_keys=rk,
            record_value_columns=names,
        )
    if via == "constructor":
        if to_rows:
            return cdata.RecordMap(blocks_in=specs[idx])
        return cdata.RecordMap(blocks_out=specs[idx])
    return specs[idx].map_to_rows() if to_rows else specs[idx].map_from_rows()


class _Stop(Exception):
    def __init__(self, failure):
        Exception.__init__(self, failure.msg)
        self.failure = failure


def _brief_exc(e):
    return f"{type(e).__name__}: {str(e)[:300]}"


class Frames:
    """One table held as engine frames: Pandas, Polars (for the Pandas-backed map), Polars (for the
    Polars-backed map). Results of transforms are passed on as the frames the library returned."""

    def __init__(self, pd_frame, pl_frame=None, plm_frame=None, plain=None):
        self.pd = pd_frame
        self.pl = pl_frame
        self.plm = plm_frame
        self.plain = plain
        self.norm = cmp.normalise(pd_frame)


class Checker:
    """Runs the relations of one case; raises _Stop(Failure) at the first violated one."""

    def __init__(self, case, closed):
        self.case = case
        self.closed = set(closed)
        self.polars = FLAG_POLARS not in self.closed
        self.counts = {}
        self.feats = set()

    def count(self, k, n=1):
        self.counts[k] = self.counts.get(k, 0) + n

    def frames(self, tbl, with_plm):
        if not self.polars:
            return Frames(to_pandas(tbl), plain=tbl)
        return Frames(to_pandas(tbl), to_polars(tbl), to_polars(tbl) if with_plm else None, plain=tbl)

    def transform(self, m, x, what, pl_map=None):
        """m.transform on the Pandas frame of x, the same on its Polars frame(s); the engines must agree.
        x is a Frames; returns the Frames of the results."""
        detail_in = x.plain if x.plain is not None else cmp.brief(x.norm, 50)
        try:
            rp = m.transform(x.pd)
            out = Frames(rp)
        except Exception as e:
            raise _Stop(
                Failure(
                    f"Pandas transform ({what}) raised on a valid keyed table with complete blocks: {_brief_exc(e)}",
                    {"kind": "raised", "engine": "pandas", "what": what.split(" ")[0], "exc": type(e).__name__},
                    {"input": detail_in},
                )
            )
        self.count("pandas_transforms")
        if not self.polars:
            self.count("excluded_by_construction")
            return out
        for label, mm, xin in (("Pandas-backed map", m, x.pl), ("Polars-backed map", pl_map, x.plm)):
            if mm is None or xin is None:
                continue
            try:
                rq = mm.transform(xin)
                nq = cmp.normalise(rq)
            except Exception as e:
                raise _Stop(
                    Failure(
                        f"Polars transform ({what}, {label}) raised where Pandas returned a table: {_brief_exc(e)}",
                        {"kind": "raised", "engine": "polars", "what": what.split(" ")[0], "exc": type(e).__name__},
                        {"input": detail_in, "pandas": cmp.brief(out.norm)},
                    )
                )
            self.count("polars_transforms")
            d = cmp.compare(out.norm, nq)
            if d is not None:
                raise _Stop(
                    Failure(
                        f"Pandas and Polars disagree on transform ({what}, {label}): {d}",
                        {"kind": "engines", "what": what.split(" ")[0]},
                        {"input": detail_in, "pandas": cmp.brief(out.norm), "polars": cmp.brief(nq)},
                    )
                )
            if label.startswith("Pandas"):
                out.pl = rq
            else:
                out.plm = rq
        return out

    def expect(self, got, want_tbl, kind, what):
        d = cmp.compare(norm_table(want_tbl), got.norm)
        if d is not None:
            if kind == "inverse":
                msg = f"m.inverse().transform(m.transform(x)) is not x for m = {what}"
            else:
                msg = f"{what} did not produce the other form of the same records"
            raise _Stop(
                Failure(
                    f"{msg} (expected vs got): {d}",
                    {"kind": kind},
                    {"expected": cmp.brief(norm_table(want_tbl), 50), "got": cmp.brief(got.norm, 50)},
                )
            )


def check_case(case, closed=()):
    """Returns (Failure | None, info) with info = {nontrivial, features, counts}."""
    ck = Checker(case, closed)
    f = None
    try:
        _check(ck)
    except _Stop as s:
        f = s.failure
    return f, {"features": sorted(ck.feats), "counts": ck.counts, "nontrivial": _nontrivial(case)}


def map_pairs(sps):
    """(form_in, form_out) of every base map of a case; None is the row form, i the block form of spec i."""
    pairs = [(0, None), (None, 0)]
    for j in range(1, len(sps)):
        pairs += [(0, j), (None, j), (j, None)]
    if len(sps) >= 3 and sps[1]["kind"] != "lossy":
        pairs.append((1, 2))
    return pairs


def pair_matched(sps, a, b):
    """Can map b be applied to the output of map a? Same form, and a's output carries every content key
    that b's input form needs."""
    if a[1] != b[0]:
        return False
    everything = set(spec_content(sps[0]))
    have = set(spec_content(sps[a[1]])) if a[1] is not None else (set(spec_content(sps[a[0]])) if a[0] is not None else everything)
    need = set(spec_content(sps[b[0]])) if b[0] is not None else set(spec_content(sps[b[1]]))
    return need <= have


def _nontrivial(case):
    return len(case["specs"][0]["keys"]) >= 2 and len(case["records"]) >= 1


def _features(case, ck):
    fs = ck.feats
    s1 = case["specs"][0]
    if len(s1["kc"]) == 2:
        fs.add("two_control_keys")
    if len(s1["vc"]) >= 2:
        fs.add("two_plus_value_columns")
    fs.add(f"record_keys_{len(case['rk'])}")
    fs.add(f"records_{len(case['records'])}")
    if not case["records"]:
        fs.add("empty_data")
    if "s" in case["ctypes"]:
        fs.add("string_cells")
    if "f" in case["ctypes"]:
        fs.add("float_cells")
    if len(set(case["ctypes"])) > 1:
        fs.add("mixed_column_types")
    if any(v is None for r in case["records"] for v in r["vals"]):
        fs.add("null_cells")
    if "i" in s1["kt"]:
        fs.add("int_control_keys")
    for sp in case["specs"][1:]:
        fs.add("second_spec_" + sp["kind"])
    fs.add("via_" + case["via"])
    if any(c in KC_POOL + VC_POOL for c in case["ckeys"]):
        fs.add("content_key_named_like_block_column")


def _check(ck):
    case = ck.case
    _features(case, ck)
    perm = case["perm"]
    sps = case["specs"]
    try:
        specs = [build_spec(case, sp) for sp in sps]
    except Exception as e:
        raise _Stop(
            Failure(
                f"strict RecordSpecification rejected a keyed control table with distinct content cells: {_brief_exc(e)}",
                {"kind": "raised", "engine": "pandas", "what": "spec", "exc": type(e).__name__},
            )
        )
    pl_specs = None
    if ck.polars and case["polars_ct"]:
        try:
            pl_specs = [build_spec(case, sp, "polars") for sp in sps]
        except Exception as e:
            raise _Stop(
                Failure(
                    f"RecordSpecification on a Polars control table raised: {_brief_exc(e)}",
                    {"kind": "raised", "engine": "polars", "what": "spec", "exc": type(e).__name__},
                )
            )
        ck.feats.add("polars_control_tables")

    all_content = spec_content(sps[0])
    R = row_table(case, all_content, perm)
    B = [block_table(case, sp, perm) for sp in sps]
    via = case["via"]

    def mk(i_in, i_out, use_specs, v):
        return base_map(case, i_in, i_out, use_specs, v)

    def form(i):
        return R if i is None else B[i]

    def name(i):
        return "rows" if i is None else f"blocks{i}"

    maps = {}
    pl_maps = {}

    def get_maps(pair):
        if pair not in maps:
            what = f"{name(pair[0])}->{name(pair[1])}"
            try:
                maps[pair] = mk(pair[0], pair[1], specs, via)
                pl_maps[pair] = mk(pair[0], pair[1], pl_specs, "methods") if pl_specs is not None else None
            except Exception as e:
                raise _Stop(
                    Failure(
                        f"building the record map {what} raised: {_brief_exc(e)}",
                        {"kind": "raised", "engine": "pandas", "what": "map", "exc": type(e).__name__},
                    )
                )
        return maps[pair], pl_maps[pair]

    valid = set(map_pairs(sps))
    # ---- base transforms: reference, inverse, pipeline, engines ------------------------------------
    for i_in, i_out in case["base"]:
        assert (i_in, i_out) in valid
        what = f"{name(i_in)}->{name(i_out)}"
        m, pm = get_maps((i_in, i_out))
        x_tbl = form(i_in)
        want = form(i_out)
        if i_out is None:
            want = row_table(case, spec_content(sps[i_in]), perm)
        x = ck.frames(x_tbl, pm is not None)
        got = ck.transform(m, x, what, pm)
        ck.expect(got, want, "reference", what)
        # inverse: only when no content key is lost (inverse() documents that it may not exist otherwise)
        if not pair_lossy(sps, (i_in, i_out)):
            try:
                inv = m.inverse()
                pinv = pm.inverse() if pm is not None else None
            except Exception as e:
                raise _Stop(
                    Failure(
                        f"inverse() of strict map {what} raised: {_brief_exc(e)}",
                        {"kind": "raised", "engine": "pandas", "what": "inverse()", "exc": type(e).__name__},
                    )
                )
            back = ck.transform(inv, got, f"inverse-of {what}", pinv)
            ck.expect(back, x_tbl, "inverse", what)
            ck.count("round_trips")
            ck.count("round_trips:" + ("rows" if i_in is None else "blocks") + "->" + ("rows" if i_out is None else "blocks"))
        else:
            ck.feats.add("lossy_map")
            try:
                m.inverse()
                ck.count("lossy_inverse_accepted")
            except Exception:
                ck.count("lossy_inverse_rejected")
        _pipeline(ck, m, x, got, what)

    # ---- composition -----------------------------------------------------------------------------
    for a_in, a_out, b_in, b_out, how in case["compose"]:
        a, b = (a_in, a_out), (b_in, b_out)
        assert a in valid and b in valid
        get_maps(a)
        get_maps(b)
        _compose(ck, maps, pl_maps, a, b, pair_matched(sps, a, b), how, form, name)

    # ---- keyed-column convenience maps -------------------------------------------------------------
    if case["keyed_column"] and len(set(case["ctypes"])) == 1:
        _keyed_column(ck, specs, B)


def pair_lossy(sps, pr):
    """Does the map pr = (form_in, form_out) drop content keys?"""
    c_in = set(spec_content(sps[0])) if pr[0] is None else set(spec_content(sps[pr[0]]))
    c_out = c_in if pr[1] is None else set(spec_content(sps[pr[1]]))
    return c_in != c_out


def compose_excluded(sps, a, b, closed):
    """Name of the closed generator flag that covers the composite `a then b`, or None."""
    both_rows = a[0] is None and b[1] is None
    row_side = (a[0] is None) or (b[1] is None)
    if row_side and not both_rows and FLAG_COMPOSE_ROW_SIDE in closed:
        return FLAG_COMPOSE_ROW_SIDE
    if b[1] is None and a[0] is not None and pair_lossy(sps, a) and FLAG_COMPOSE_LOSSY_ROWS in closed:
        return FLAG_COMPOSE_LOSSY_ROWS
    return None


def _compose(ck, maps, pl_maps, a, b, is_matched, how, form, name):
    sps = ck.case["specs"]
    if compose_excluded(sps, a, b, ck.closed) is not None:
        ck.count("excluded_by_construction")
        return
    row_side = (a[0] is None) or (b[1] is None)
    m1, m2 = maps[a], maps[b]
    what = f"{name(a[0])}->{name(a[1])} then {name(b[0])}->{name(b[1])}"
    x_tbl = form(a[0])
    sig_extra = {"row_side": bool(row_side), "lossy": bool(pair_lossy(sps, a) or pair_lossy(sps, b))}
    try:
        c = m2.compose(m1) if how == "compose" else (m1 >> m2)
    except Exception as e:
        # the property only speaks about composites that exist; a rejected pair is counted
        ck.count(("compose_rejected_matched:" if is_matched else "compose_rejected_mismatched:") + type(e).__name__)
        return
    if c is None:
        ck.count("compose_returned_none")  # rows -> rows: compose() returns None for the identity
        return
    if not is_matched:
        ck.count("compose_accepted_mismatched")
        return
    x = ck.frames(x_tbl, False)
    try:
        seq = cmp.normalise(m2.transform(m1.transform(x.pd)))
    except Exception as e:
        raise _Stop(
            Failure(
                f"sequential application ({what}) raised: {_brief_exc(e)}",
                {"kind": "raised", "engine": "pandas", "what": "sequential", "exc": type(e).__name__},
            )
        )
    try:
        got = ck.transform(c, x, f"composite[{how}] {what}")
    except _Stop as s:
        if s.failure.sig.get("engine") == "pandas":
            raise _Stop(
                Failure(
                    f"{how}: the composite of ({what}) raised where applying the maps one after the other "
                    f"returns a table: {s.failure.msg}",
                    dict({"kind": "compose", "how": "raised"}, **sig_extra),
                    {"input": x_tbl, "sequential": cmp.brief(seq, 50)},
                )
            )
        raise
    d = cmp.compare(seq, got.norm)
    if d is not None:
        raise _Stop(
            Failure(
                f"{how}: the composite of ({what}) differs from applying the maps one after the other: {d}",
                dict({"kind": "compose", "how": "mismatch"}, **sig_extra),
                {"input": x_tbl, "sequential": cmp.brief(seq, 50), "composite": cmp.brief(got.norm, 50)},
            )
        )
    ck.count("compositions_checked")
    ck.count("compositions_checked_row_side" if row_side else "compositions_checked_block_block")
    if pl_maps.get(a) is not None and pl_maps.get(b) is not None:
        # composites of Polars-backed maps: compose() is written against the Pandas API; only counted
        try:
            pl_maps[b].compose(pl_maps[a])
            ck.count("polars_backed_compose_accepted")
        except Exception as e:
            ck.count("polars_backed_compose_rejected:" + type(e).__name__)


def _pipeline(ck, m, x, direct, what):
    from data_algebra.data_ops import TableDescription

    try:
        ops = TableDescription(table_name="d", column_names=list(x.plain["cols"])).convert_records(m)
        got = cmp.normalise(ops.eval({"d": x.pd}))
    except Exception as e:
        raise _Stop(
            Failure(
                f"convert_records pipeline ({what}) raised where the direct transform works: {_brief_exc(e)}",
                {"kind": "raised", "engine": "pandas", "what": "pipeline", "exc": type(e).__name__},
                {"input": x.plain},
            )
        )
    d = cmp.compare(direct.norm, got)
    if d is not None:
        raise _Stop(
            Failure(
                f"convert_records pipeline ({what}) differs from the direct transform: {d}",
                {"kind": "pipeline", "engine": "pandas"},
                {"input": x.plain, "direct": cmp.brief(direct.norm, 50), "pipeline": cmp.brief(got, 50)},
            )
        )
    ck.count("pipeline_checked")
    if not ck.polars:
        ck.count("excluded_by_construction")
        return
    try:
        gotq = cmp.normalise(ops.eval({"d": x.pl}))
    except Exception as e:
        raise _Stop(
            Failure(
                f"convert_records pipeline on Polars ({what}) raised where Pandas returned a table: {_brief_exc(e)}",
                {"kind": "raised", "engine": "polars", "what": "pipeline", "exc": type(e).__name__},
                {"input": x.plain},
            )
        )
    d = cmp.compare(direct.norm, gotq)
    if d is not None:
        raise _Stop(
            Failure(
                f"convert_records pipeline on Polars ({what}) differs from the Pandas transform: {d}",
                {"kind": "engines", "what": "pipeline"},
                {"input": x.plain, "pandas": cmp.brief(direct.norm, 50), "polars": cmp.brief(gotq, 50)},
            )
        )


def _keyed_column(ck, specs, B):
    """map_to_keyed_column / map_from_keyed_column with the default column names."""
    case = ck.case
    ck.feats.add("keyed_column_maps")
    sp = case["specs"][0]
    content = spec_content(sp)
    t = case["ctypes"][0]
    rows = []
    for rec in case["records"]:
        for c in content:
            rows.append(list(rec["key"]) + [case["ckeys"][c], rec["vals"][c]])
    K = {
        "cols": [r["name"] for r in case["rk"]] + ["measure", "value"],
        "types": [r["type"] for r in case["rk"]] + ["s", t],
        "rows": _shuffle(rows, case["perm"]),
    }
    try:
        to_k = specs[0].map_to_keyed_column()
        from_k = specs[0].map_from_keyed_column()
        to_k_inv = to_k.inverse()
        from_k_inv = from_k.inverse()
    except Exception as e:
        raise _Stop(
            Failure(
                f"map_to_keyed_column/map_from_keyed_column/inverse raised: {_brief_exc(e)}",
                {"kind": "raised", "engine": "pandas", "what": "map", "exc": type(e).__name__},
            )
        )
    got = ck.transform(to_k, ck.frames(B[0], False), "blocks0->keyed-column")
    ck.expect(got, K, "reference", "blocks0->keyed-column")
    back = ck.transform(to_k_inv, got, "inverse-of blocks0->keyed-column")
    ck.expect(back, B[0], "inverse", "blocks0->keyed-column")
    got = ck.transform(from_k, ck.frames(K, False), "keyed-column->blocks0")
    ck.expect(got, B[0], "reference", "keyed-column->blocks0")
    back = ck.transform(from_k_inv, got, "inverse-of keyed-column->blocks0")
    ck.expect(back, K, "inverse", "keyed-column->blocks0")
    ck.count("round_trips", 2)


# ---- strategies ------------------------------------------------------------------------------------

FACTORS = {n: [(r, n // r) for r in range(2, n + 1) if n % r == 0 and n // r <= len(VC_POOL)] for n in range(2, 13)}


def _key_rows(draw, kt, n):
    elems = [st.integers(0, 15) if t == "i" else st.sampled_from(CT_STR_KEYS) for t in kt]
    rows = draw(st.lists(st.tuples(*elems), min_size=n, max_size=n, unique=True))
    return [list(r) for r in rows]


def _pick(draw, pool, k):
    return draw(st.lists(st.sampled_from(pool), min_size=k, max_size=k, unique=True))


def _spec_names(draw, nkc, nvc):
    return _pick(draw, KC_POOL, nkc), _pick(draw, VC_POOL, nvc)


@st.composite
def case_st(draw, nulls=False, closed=()):
    n_rk = draw(st.sampled_from([1, 0, 2, 1]))
    rk_names = _pick(draw, RK_POOL, n_rk)
    rk = [{"name": nm, "type": draw(st.sampled_from(["i", "s"]))} for nm in rk_names]
    nrows = draw(st.integers(2, 4))
    nvc = draw(st.integers(1, 3))
    nkc = draw(st.integers(1, 2))
    n = nrows * nvc
    ckeys = _pick(draw, CONTENT_POOL, n)
    collide = draw(st.integers(0, 5)) == 0
    if collide:
        # a content key may carry the name of a block-form column (they live in different forms)
        ckeys[draw(st.integers(0, n - 1))] = draw(st.sampled_from(KC_POOL + VC_POOL))
    tmode = draw(st.sampled_from(["f", "s", "mixed"]))
    col_types = [tmode if tmode != "mixed" else draw(st.sampled_from(["f", "s"])) for _ in range(nvc)]
    ctypes = [col_types[j] for _ in range(nrows) for j in range(nvc)]
    uniform = len(set(ctypes)) == 1

    kc, vc = _spec_names(draw, nkc, nvc)
    kt = [draw(st.sampled_from(["s", "i"])) for _ in range(nkc)]
    s1 = {
        "kind": "first",
        "kc": kc,
        "kt": kt,
        "keys": _key_rows(draw, kt, nrows),
        "vc": vc,
        "layout": [[i * nvc + j for j in range(nvc)] for i in range(nrows)],
    }
    specs = [s1]
    n_extra = draw(st.sampled_from([0, 1, 1, 2]))
    for e in range(n_extra):
        last = e == n_extra - 1
        kinds = ["same_shape"]
        if uniform:
            kinds += ["reshape", "long"]
            if last and n >= 3:
                kinds.append("lossy")
        kind = draw(st.sampled_from(kinds))
        if kind == "same_shape":
            cols = []
            for j in range(nvc):
                p = draw(st.permutations(list(range(nrows))))
                cols.append([s1["layout"][p[i]][j] for i in range(nrows)])
            order = draw(st.permutations(list(range(nvc))))
            layout = [[cols[j][i] for j in order] for i in range(nrows)]
            r2, c2 = nrows, nvc
        else:
            content = list(draw(st.permutations(list(range(n)))))
            if kind == "lossy":
                content = content[: draw(st.integers(2, n - 1))]
            nn = len(content)
            if kind == "long":
                r2, c2 = nn, 1
            else:
                r2, c2 = draw(st.sampled_from(FACTORS[nn]))
            layout = [[content[i * c2 + j] for j in range(c2)] for i in range(r2)]
        if kind == "long":
            kc2, vc2 = _spec_names(draw, 1, 1)
            kt2 = ["s"]
            keys2 = [[ckeys[row[0]]] for row in layout]
        else:
            nkc2 = draw(st.integers(1, 2))
            kc2, vc2 = _spec_names(draw, nkc2, c2)
            kt2 = [draw(st.sampled_from(["s", "i"])) for _ in range(nkc2)]
            keys2 = _key_rows(draw, kt2, r2)
        specs.append({"kind": kind, "kc": kc2, "kt": kt2, "keys": keys2, "vc": vc2, "layout": layout})

    n_rec = draw(st.sampled_from([2, 1, 0, 3, 4, 2, 3] if n_rk > 0 else [1, 0, 1, 1]))
    key_elems = [st.integers(-3, 10) if r["type"] == "i" else st.sampled_from(STR_KEYS) for r in rk]
    rec_keys = draw(st.lists(st.tuples(*key_elems), min_size=n_rec, max_size=n_rec, unique=True))
    if n_rk == 2 and n_rec >= 2 and draw(st.sampled_from([False, True])):
        # ties in the FIRST record key (the second one still tells the records apart)
        first = rec_keys[0][0]
        tied, seen = [], set()
        for k in rec_keys:
            if k[1] not in seen:
                seen.add(k[1])
                tied.append((first, k[1]))
        rec_keys = tied

    def cell(t):
        if t == "f":
            base = st.one_of(
                st.integers(-5, 5).map(float),
                st.floats(min_value=-1e9, max_value=1e9, allow_nan=False, allow_infinity=False),
            )
        else:
            base = st.sampled_from(STR_CELLS)
        if nulls:
            return st.one_of(st.none(), base, base, base)
        return base

    records = [{"key": list(k), "vals": [draw(cell(t)) for t in ctypes]} for k in rec_keys]
    pairs = map_pairs(specs)
    matched = [list(a) + list(b) for a in pairs for b in pairs if pair_matched(specs, a, b)]
    mismatched = [list(a) + list(b) for a in pairs for b in pairs if not pair_matched(specs, a, b)]
    base = draw(st.lists(st.sampled_from(pairs).map(list), min_size=1, max_size=draw(st.sampled_from([1, 1, 1, 2])), unique_by=repr))
    how = st.sampled_from(["compose", "rshift"])
    compose = []
    excluded = 0
    if draw(st.integers(0, 3)) > 0:
        cats = {"block_block": [], "row_side": [], "rows_rows": []}
        for q in matched:
            if q[0] is None and q[3] is None:
                cats["rows_rows"].append(q)
            elif q[0] is None or q[3] is None:
                cats["row_side"].append(q)
            else:
                cats["block_block"].append(q)
        cat = draw(st.sampled_from(["block_block", "row_side", "block_block", "row_side", "rows_rows"]))
        avail = [q for q in cats[cat] if compose_excluded(specs, (q[0], q[1]), (q[2], q[3]), closed) is None]
        if len(avail) < len(cats[cat]):
            excluded += 1  # a closed region of the composite space is avoided by construction
            if not avail:
                avail = cats["block_block"]
        if avail:
            compose.append(draw(st.sampled_from(avail)) + [draw(how)])
    if draw(st.sampled_from([False, False, False, True])):
        compose.append(draw(st.sampled_from(mismatched)) + [draw(how)])
    return {
        "rk": rk,
        "ckeys": ckeys,
        "ctypes": ctypes,
        "specs": specs,
        "records": records,
        "perm": draw(st.lists(st.integers(0, 5), max_size=7)),
        "colperm": draw(st.one_of(st.just([]), st.lists(st.integers(0, 3), min_size=2, max_size=6))),
        "ct_colperm": draw(st.one_of(st.just([]), st.lists(st.integers(0, 3), min_size=2, max_size=5))),
        # pivot_specification asserts that all names involved are distinct: not usable with a collision
        "via": draw(st.sampled_from(["methods", "constructor"] + ([] if collide else ["pivot_specification", "pivot_blocks"]))),
        "polars_ct": draw(st.sampled_from([False, False, True])),
        "base": base,
        "compose": compose,
        "keyed_column": draw(st.sampled_from([False, False, False, True])),
        "excluded_by_construction": excluded,
    }


# ---- module contract -------------------------------------------------------------------------------


def replay(check, case):
    f, _ = check_case(case, ())
    return f


def run(ctx):
    ev = ctx.ev
    ev.rule = (
        "Hypothesis draws one family of strict record specifications (first: 1-2 control key columns of str/int "
        "keys, 1-3 value columns, 2-4 rows, all content cells distinct; 0-2 further specifications over the same "
        "content keys: same-shape rearrangement, reshape, keyed-column (long) form, or a lossy subset), 0-2 record "
        "key columns (int/str), 0-4 records (0-1 without record keys) with float or string cells, a row shuffle, how "
        "maps are built (methods / RecordMap constructor / pivot_specification+unpivot_specification / "
        "pivot_blocks_to_rowrecs+pivot_rowrecs_to_blocks, map_to/from_keyed_column), 1-2 base maps and 0-2 pairs to "
        "compose. The harness writes the row form and every block form (complete blocks) from that plain data and "
        "checks per base map: result == other form, inverse round trip == original, convert_records pipeline == "
        "direct transform, Polars == Pandas at every step (Pandas-backed map on Polars data; Polars-backed map in "
        "1/3 of the cases); per pair: composite (compose or >>) == sequential application. "
        "non-trivial = first control table has >= 2 rows (always) and there is >= 1 record; distinct = SHA-1 of the case."
    )
    ev.assumptions = [
        "tables are keyed by record keys (+ control keys), record keys and control keys are non-null, every block is "
        "complete: the preconditions checked by blocks_to_rowrecs / rowrecs_to_blocks",
        "cell values are homogeneous per block value column (all float or all str); block->block maps are generated "
        "only when both layouts keep columns homogeneous",
        "null cell VALUES are not documented anywhere in cdata.py; they are generated only in the separate "
        "'null_cells' campaign whose discrepancies are counted (counter null_cell_discrepancy) and never reported",
        "column names of record keys, control keys, value columns and content keys come from four disjoint pools "
        "(a content key carries the name of a control-key/value column in ~1/6 of the cases, never of a record key: "
        "the constructor rejects that); one-row control tables are not generated",
        "compose(): a pair that compose()/>> rejects with an exception, or for which it returns None (rows->rows), is "
        "counted, not a violation; pairs whose forms do not fit are only probed for being rejected",
        "inverse() is demanded only for maps that keep every content key (its docstring allows failure otherwise)",
        "Polars-backed record maps (pl.DataFrame control tables) are applied to Polars data only; compose() on them "
        "(Pandas-only code, raises TypeError) is counted as polars_backed_compose_*, not judged",
        "the reference relation (result of a base map == other form written down by the harness) is the meaning of "
        "'transforming to the other form'; it is implied by the inverse law plus one correct direction",
        "row order and column order of results are not compared (multiset of rows over the column set)",
        "SQL translation of convert_records is C01's business and not exercised here",
        "closed flags: polars_cdata drops every Polars step; compose_row_side drops composites with a row-form "
        "input or output; compose_lossy_to_rows drops (blocks -> fewer content keys) followed by (-> rows)",
    ]
    ev.trusted_base = ["vp.cmp normalise/compare", "pandas / polars frame constructors with explicit dtypes"]
    ctx.probe_findings(replay)
    closed = frozenset(ctx.closed)

    def make_oracle(downgrade):
        def oracle(case):
            f, info = check_case(case, closed)
            ev.note(case, info["nontrivial"], info["features"])
            for k, v in info["counts"].items():
                ev.count(k, v)
            if case.get("excluded_by_construction"):
                ev.count("excluded_by_construction", case["excluded_by_construction"])
            if f is not None and downgrade:
                ev.count("null_cell_discrepancy")
                ev.count("null_cell_discrepancy:" + str(f.sig.get("kind")))
                return None
            return f

        return oracle

    ctx.campaign("main", case_st(nulls=False, closed=closed), make_oracle(False), max_examples=ctx.n(250, 45000))
    ctx.campaign("null_cells", case_st(nulls=True, closed=closed), make_oracle(True), max_examples=ctx.n(25, 3000))
