"""C04 — SQL formatting and optimisation options never change query results (metamorphic).

For one program and one data set, the SQL produced under every combination of
use_with x use_cte_elim x annotate x initial_commas x sql_indent x allow_extend_merges, for the SQLite dialect
(with and without CTE-elimination capability) and the PostgreSQL dialect (executed on the SQLite surrogate),
must return the same table as the baseline variant (use_with=False, no merges) of the same dialect, and the
dialects must agree with each other. No reference implementation is needed.
"""

from __future__ import annotations

import itertools

from .. import cmp, engines, gen, schema, spec
from ..common import Failure
from . import c01

PID = "C04"

BASE_CFG = {
    "engines": ("pandas", "sqlite"),
    "max_nodes": 7,
    "min_steps": 2,
    "n_tables": (1, 2),
    "final_order": 0.2,
    "ops": {"extend": 8, "natural_join": 5, "concat_rows": 3, "window": 3, "ordered_window": 3, "convert_records": 2},
    "reuse_bias": True,
    "shape": "diamond",
    "extend_then_ordered_window_prob": 0.25,
    "extend_then_partition_window_prob": 0.15,
    "concat_with_source_prob": 0.15,
    "order_twin_prob": 0.15,
    "narrowing_tails": True,
    "shape_prob": 0.65,  # the rest are plain chains, where extend -> ordered window on the fresh column is frequent
}

INDENTS = [" ", "   ", "\t"]


def variants(tier_full: bool, focus=None):
    """(label, dialect key, model tweaks, SQLFormatOptions kwargs)
    focus="merge": only the four plain-SQLite variants {WITH on/off} x {extend merges on/off} (cheap: many more programs)
    focus="cte": only the six PostgreSQL-dialect variants {no WITH, WITH, WITH+CTE elimination} x {merges on/off}"""
    if focus == "merge":
        return [v for v in variants(False) if v[1] == "sqlite"]
    if focus == "cte":
        return [v for v in variants(False) if v[1] == "pg"]
    out = []
    if not tier_full:
        # quick tier (to_sql costs ~50-100 ms on deep DAGs): 16 variants covering every option at least in both
        # states on every dialect configuration, and every CTE x merge combination where CTE elimination is live
        for dialect in ("sqlite", "sqlite_cte", "pg"):
            combos = [(False, False), (True, False)] + ([(True, True)] if dialect != "sqlite" else [])
            for use_with, cte in combos:
                for merges in (True, False):
                    fancy = bool(use_with) != bool(merges)  # annotate + initial commas on half of the variants
                    ind = INDENTS[(use_with + cte + merges) % 3]
                    out.append(
                        (
                            f"{dialect}|with={int(use_with)}|cte={int(cte)}|ann={int(fancy)}|commas={int(fancy)}|merge={int(merges)}|indent={ind!r}",
                            dialect,
                            merges,
                            dict(use_with=use_with, use_cte_elim=cte, annotate=fancy, initial_commas=fancy, sql_indent=ind),
                        )
                    )
        return out
    for dialect in ("sqlite", "sqlite_cte", "pg"):
        for use_with, cte, annotate, commas in itertools.product([False, True], repeat=4):
            if not tier_full:
                # quick tier: annotate/initial_commas vary together; use_cte_elim without use_with is a no-op;
                # the plain SQLite dialect ignores use_cte_elim
                if annotate != commas or (cte and not use_with) or (cte and dialect == "sqlite"):
                    continue
            for merges in (True, False):
                indents = INDENTS if tier_full else [INDENTS[(use_with + annotate + commas) % 3]]
                for ind in indents:
                    out.append(
                        (
                            f"{dialect}|with={int(use_with)}|cte={int(cte)}|ann={int(annotate)}|commas={int(commas)}|merge={int(merges)}|indent={ind!r}",
                            dialect,
                            merges,
                            dict(use_with=use_with, use_cte_elim=cte, annotate=annotate, initial_commas=commas, sql_indent=ind),
                        )
                    )
    return out


def _models():
    import data_algebra.PostgreSQL
    import data_algebra.SQLite

    m = {}
    m["sqlite"] = data_algebra.SQLite.SQLiteModel()
    m["sqlite_cte"] = data_algebra.SQLite.SQLiteModel()
    m["sqlite_cte"].supports_cte_elim = True
    m["pg"] = data_algebra.PostgreSQL.PostgreSQLModel()
    return m


def metamorphic(case, full=False, focus=None):
    import warnings

    from data_algebra.sql_format_options import SQLFormatOptions

    info = {}
    try:
        ops = spec.build(case)
    except Exception as e:
        info["builder_rejected"] = str(e)
        return None, info
    names = spec.used_tables(case)
    tables = spec.pandas_tables(case, names)
    zn = c01.zn_columns(case)
    ordered_by = c01.final_order_cols(case)
    eng = engines.SQLiteEngine("pg")  # has the LN/STDDEV shims; executes all three dialects' text
    try:
        eng.load(tables)
        models = _models()
        results = {}
        texts = {}
        base = {}
        failure = None
        for label, dialect, merges, kw in variants(full, focus):
            model = models[dialect]
            model.allow_extend_merges = merges
            with warnings.catch_warnings():
                warnings.simplefilter("ignore")
                try:
                    sql = model.to_sql(ops, sql_format_options=SQLFormatOptions(**kw))
                    # repeatability (guards against in-place NearSQL mutation leaking into ops): on the WITH+CTE path
                    sql2 = model.to_sql(ops, sql_format_options=SQLFormatOptions(**kw)) if (kw["use_with"] and kw["use_cte_elim"]) else sql
                except Exception as e:
                    results[label] = ("to_sql_error", f"{type(e).__name__}: {e}")
                    continue
            if sql != sql2:
                return (
                    Failure(
                        f"to_sql is not repeatable for {label}: generating SQL twice gives different text",
                        {"kind": "not_repeatable", "dialect": dialect},
                        {"first": sql[:1500], "second": sql2[:1500]},
                    ),
                    info,
                )
            texts[label] = sql
            try:
                results[label] = ("ok", eng.query(sql))
            except engines.EngineError as e:
                if engines.engine_limit(e) or (dialect == "pg" and engines.surrogate_cannot_run(e) and _pg_only(str(e.exc))):
                    results[label] = ("surrogate_cannot_run", str(e.exc)[:200])
                else:
                    results[label] = ("exec_error", str(e.exc)[-300:])
        # baseline per dialect: no WITH, no merges, no annotation
        for dialect in ("sqlite", "sqlite_cte", "pg"):
            bl = [l for (l, d, m, kw) in variants(full, focus) if d == dialect and not m and not kw["use_with"] and not kw["use_cte_elim"] and not kw["annotate"] and not kw["initial_commas"]]
            if bl:
                base[dialect] = bl[0]
        info["distinct_texts"] = len(set(texts.values()))
        # did an optimisation actually fire? (observed from outside: CTE elimination removes a `name AS (` definition,
        # SQL-level extend merging removes a SELECT; formatting options change neither count)
        meta = {l: (d, kw["use_with"], kw["use_cte_elim"], m) for (l, d, m, kw) in variants(full, focus)}

        def _count(label, token):
            return texts[label].count(token)

        cte_changed = False
        merge_changed = False
        for l1, (d1, w1, c1, m1) in meta.items():
            if l1 not in texts:
                continue
            for l2, (d2, w2, c2, m2) in meta.items():
                if l2 not in texts or d1 != d2 or w1 != w2:
                    continue
                if c1 and not c2 and m1 == m2 and _count(l1, " AS (") != _count(l2, " AS ("):
                    cte_changed = True
                if m1 and not m2 and c1 == c2 and _count(l1, "SELECT") != _count(l2, "SELECT"):
                    merge_changed = True
        info["cte_hit"] = cte_changed
        info["merge_hit"] = merge_changed
        statuses = {v[0] for v in results.values()}
        if statuses <= {"to_sql_error"} or statuses <= {"exec_error", "to_sql_error"}:
            info["all_variants_raise"] = True
            return None, info
        for label, dialect, merges, kw in variants(full, focus):
            st, val = results[label]
            bst, bval = results[base[dialect]]
            if st == "surrogate_cannot_run" or bst == "surrogate_cannot_run":
                info["surrogate_cannot_run"] = True
                continue
            if bst != "ok":
                # baseline itself cannot run: compare against any variant that can (a variant running while
                # the baseline does not is still an option-dependent outcome)
                if st == "ok":
                    return (
                        Failure(
                            f"variant {label} runs but the baseline variant {base[dialect]} fails: {bval}",
                            {"kind": "baseline_fails", "dialect": dialect},
                            {"sql": texts.get(base[dialect], "")[:1500]},
                        ),
                        info,
                    )
                continue
            if st != "ok":
                return (
                    Failure(
                        f"variant {label} fails ({st}: {val}) while baseline {base[dialect]} runs",
                        {"kind": "variant_fails", "dialect": dialect, "cte": kw["use_cte_elim"], "merge": merges, "with": kw["use_with"]},
                        {"sql": texts.get(label, "")[:2500]},
                    ),
                    info,
                )
            d = cmp.compare(bval, val, ordered_by=ordered_by, zn_cols=())
            if d is not None:
                return (
                    Failure(
                        f"variant {label} returns a different table than baseline {base[dialect]}: {d}",
                        {"kind": "variant_differs", "dialect": dialect, "cte": kw["use_cte_elim"], "merge": merges, "with": kw["use_with"]},
                        {"baseline": cmp.brief(bval), "variant": cmp.brief(val), "sql": texts[label][:2500]},
                    ),
                    info,
                )
        # across dialects
        oks = [(d, results[base[d]][1]) for d in ("sqlite", "sqlite_cte", "pg") if d in base and results[base[d]][0] == "ok"]
        for (d1, r1), (d2, r2) in zip(oks, oks[1:]):
            d = cmp.compare(r1, r2, ordered_by=ordered_by, zn_cols=())
            if d is not None:
                return (
                    Failure(
                        f"dialects {d1} and {d2} return different tables for the same program: {d}",
                        {"kind": "dialects_differ", "pair": f"{d1}/{d2}", "null_full_join_key": has_nullable_full_join_key(case)},
                        {d1: cmp.brief(r1), d2: cmp.brief(r2)},
                    ),
                    info,
                )
    finally:
        eng.close()
    return None, info


def _pg_only(msg: str) -> bool:
    return True


def has_nullable_full_join_key(case) -> bool:
    sch = schema.infer(case)
    for i in spec.reachable(case):
        nd = case["nodes"][i]
        if nd["op"] == "natural_join" and nd["jointype"].lower() == "full":
            for ka, kb in nd["on"]:
                if sch[nd["a"]].cols[ka]["null"] or sch[nd["b"]].cols[kb]["null"]:
                    return True
    return False


def replay(check, case):
    f, _ = metamorphic(case, full=True)
    return f


def run(ctx):
    ev = ctx.ev
    full = ctx.tier == "thorough"
    nvar = len(variants(full))
    ev.rule = (
        f"random operator DAGs biased to shared sub-pipelines, chains of extends, joins and record maps; each executed under {nvar} "
        "variants (3 dialect configurations x use_with x use_cte_elim x annotate x initial_commas x extend-merge on/off x sql_indent) on SQLite; "
        "non-trivial = >=3 distinct SQL texts AND (CTE elimination changed the text OR SQL-level extend merging changed the text); "
        "distinct = SHA-1 of the case JSON"
    )
    ev.assumptions = [
        "PostgreSQL-dialect text is executed on the SQLite 3.40 surrogate (no PostgreSQL server in the sandbox)",
        "method fragment as in C01; results compared as multisets (ordered key sequence after a final order_rows)",
        "quick tier uses one sql_indent per option combination (rotating); thorough uses all three",
    ]
    ctx.probe_findings(replay)
    cfg = dict(BASE_CFG)
    cfg["closed"] = set(ctx.closed)

    def oracle(case, focus=None):
        f, info = metamorphic(case, full, focus)
        fs = gen.features(case) + (["focus_" + focus] if focus else [])
        nt = info.get("distinct_texts", 0) >= 3 and (info.get("cte_hit") or info.get("merge_hit"))
        if info.get("cte_hit"):
            fs = fs + ["cte_hit"]
        if info.get("merge_hit"):
            fs = fs + ["merge_hit"]
        ev.note(case, bool(nt), fs, sample={"program": c01._sample(case), "distinct_sql_texts": info.get("distinct_texts")})
        ev.count("sql_variants_executed", len(variants(full, focus)))
        for k in ("builder_rejected", "all_variants_raise", "surrogate_cannot_run"):
            if info.get(k):
                ev.count(k)
        return f

    ctx.campaign("main", gen.programs(cfg), oracle, max_examples=ctx.n(60, 640))
    # extend-merge focus: extend-heavy chains (row-wise extend directly followed by a window ordered by / partitioned by
    # what it assigned, window pairs), only the four plain-SQLite variants -> 4x cheaper per program
    mcfg = dict(cfg)
    mcfg.update(
        {
            "shape": None,
            "max_nodes": 6,
            "n_tables": (1, 1),
            "extend_then_ordered_window_prob": 0.35,
            "extend_then_partition_window_prob": 0.35,
            "concat_with_source_prob": 0.0,
            "ops": {"extend": 10, "window": 5, "ordered_window": 5, "select_rows": 1, "project": 1, "natural_join": 0, "concat_rows": 0, "convert_records": 0, "order_rows": 1, "drop_columns": 0.5, "select_columns": 0.5, "rename_columns": 0.5, "map_columns": 0},
            "min_steps": 3,
            "final_order": 0.1,
        }
    )
    # CTE-elimination focus: always a diamond (shared node, consumers that are twins / ask for different column subsets)
    ccfg = dict(cfg)
    ccfg.update({"shape_prob": 1.0, "narrowing_tails": True, "concat_perm_prob": 0.15, "order_twin_prob": 0.4})
    ctx.campaign("cte_focus", gen.programs(ccfg), lambda case: oracle(case, "cte"), max_examples=ctx.n(200, 16000))
    ctx.campaign("merge_focus", gen.programs(mcfg), lambda case: oracle(case, "merge"), max_examples=ctx.n(250, 24000))
