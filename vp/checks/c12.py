"""C12 — printed pipelines rebuild to equal pipelines with identical results (round trip).

For each generated program (shared generator + an enrichment step with unary minus under **, negative literals,
strings with quotes / backslashes / newlines / unicode, is_in lists, mapv dicts, shift periods), every text form
  to_python(pretty=False), to_python(pretty=True), repr(ops), str(ops)
must eval (eval_da_ops) to a pipeline that == the original, prints to the same text again, and gives the same
Pandas result on the generated data; pickle.loads(pickle.dumps(ops)) likewise.
"""

from __future__ import annotations

import pickle
import warnings

from hypothesis import strategies as st

from .. import cmp, engines, gen, schema, spec
from ..common import Failure
from ..schema import NUM
from . import c01

PID = "C12"

BASE_CFG = {"max_nodes": 5, "n_tables": (1, 2), "final_order": 0.3, "expr_mode": "mixed", "ops": {"convert_records": 2, "natural_join": 4, "ordered_window": 4}}

NASTY = ["it's", 'say "hi"', "back\\slash", "tab\there", "new\nline", "naïve ünï", "%s %d", "{}", "a'b\"c\\", "", " lead", "emoji 🙂"]


def draw_case(draw, closed=()):
    cfg = dict(BASE_CFG)
    cfg["closed"] = set(closed)
    g = gen.G(draw, cfg)
    b = gen.Builder(g, cfg)
    cur = b.grow(b.heads[0], g.pick([1, 2, 2, 3, 4]))
    sch = b.schemas[cur]
    # enrichment: one extra extend / select_rows with printing-sensitive expressions
    num = [c for c in sch.of_type(*NUM) if not sch.cols[c]["null"]]
    strs = [c for c in sch.of_type("str") if not sch.cols[c]["null"]]
    feats = []
    ops = []
    if num and g.boolean(0.8):
        x = g.pick(num)
        kind = g.pick(["neg_pow", "neglit_pow", "pow_neg_exp", "neg_compound", "nested_neg", "sub_chain", "neg_mul", "pow_tower_left", "pow_tower_right", "div_chain", "neg_method", "sub_method",
                       "div_coalesce", "mul_coalesce", "pow_coalesce_base", "pow_coalesce_exp", "coalesce_nested", "neg_div_lit", "sub_coalesce"])
        X = ["col", x]
        e = {
            "neg_pow": ["call", "**", [["call", "neg", [X]], ["lit", 2]]],
            "neglit_pow": ["call", "**", [["lit", g.pick([-3, -2, -1.5])], ["lit", 2]]],
            "pow_neg_exp": ["call", "**", [["call", "+", [["call", "abs", [X]], ["lit", 1.0]]], ["lit", -1]]],
            "neg_compound": ["call", "neg", [["call", "+", [X, ["lit", 1]]]]],
            "nested_neg": ["call", "neg", [["call", "neg", [X]]]],
            "sub_chain": ["call", "-", [X, ["call", "-", [X, ["lit", 1]]]]],
            "neg_mul": ["call", "*", [["call", "neg", [X]], ["call", "neg", [["lit", 2.5]]]]],
            "pow_tower_left": ["call", "**", [["call", "**", [["call", "+", [["call", "abs", [X]], ["lit", 1.0]]], ["lit", 2]]], ["lit", 3]]],
            "pow_tower_right": ["call", "**", [["call", "+", [["call", "abs", [X]], ["lit", 1.0]]], ["call", "**", [["lit", 2], ["lit", 2]]]]],
            "div_chain": ["call", "/", [X, ["call", "/", [["lit", 4.0], ["lit", 2.0]]]]],
            "neg_method": ["call", "abs", [["call", "neg", [X]]]],
            "sub_method": ["call", "abs", [["call", "-", [X, ["lit", 1]]]]],
            # method-call results (coalesce) as operands: however they are printed, the operand must stay one unit
            "div_coalesce": ["call", "/", [["lit", 4.0], ["call", "coalesce", [X, ["lit", 2.0]]]]],
            "mul_coalesce": ["call", "*", [["call", "+", [X, ["lit", 1.0]]], ["call", "coalesce", [X, ["lit", 2.0]]]]],
            "pow_coalesce_base": ["call", "**", [["call", "coalesce", [["call", "abs", [X]], ["lit", 2.0]]], ["lit", 2]]],
            "pow_coalesce_exp": ["call", "**", [["lit", 2.0], ["call", "coalesce", [["call", "abs", [X]], ["lit", 1.0]]]]],
            "coalesce_nested": ["call", "coalesce", [X, ["call", "coalesce", [X, ["lit", 3.0]]]]],
            "sub_coalesce": ["call", "-", [["lit", 7.0], ["call", "coalesce", [X, ["lit", 2.0]]]]],
            "neg_div_lit": ["call", "neg", [["call", "/", [["lit", 7.0], ["call", "+", [["call", "abs", [X]], ["lit", 2.0]]]]]]],
        }[kind]
        ops.append(["x" if kind in ("pow_neg_exp", "neg_mul", "pow_tower_left", "div_chain", "div_coalesce", "mul_coalesce", "pow_coalesce_base", "pow_coalesce_exp", "coalesce_nested", "sub_coalesce", "neg_div_lit") else ("w" if kind != "neglit_pow" else "z"), ["call", "*", [e, ["lit", 1.0]]]])
        feats.append(kind)
    if strs and g.boolean(0.8):
        s = g.pick(strs)
        kind = g.pick(["str_eq", "concat", "is_in", "mapv", "if_else_str", "concat_right_nested", "concat_left_nested", "coalesce_concat"])
        S = ["col", s]
        lit = g.pick(NASTY)
        if kind == "str_eq":
            ops.append(["p", ["call", "==", [S, ["lit", lit]]]])
        elif kind == "concat":
            ops.append(["t", ["call", "%+%", [S, ["lit", lit]]]])
        elif kind == "concat_right_nested":
            ops.append(["t", ["call", "%+%", [S, ["call", "%+%", [S, ["lit", lit]]]]]])
        elif kind == "concat_left_nested":
            ops.append(["t", ["call", "%+%", [["call", "%+%", [S, ["lit", lit]]], S]]])
        elif kind == "coalesce_concat":
            ops.append(["t", ["call", "%+%", [["lit", "a"], ["call", "coalesce", [S, ["lit", lit]]]]]])
        elif kind == "is_in":
            ops.append(["q", ["call", "is_in", [S, ["list", g.subset(NASTY, lo=1, hi=3)]]]])
        elif kind == "mapv":
            keys = g.subset(NASTY + ["a", "b"], lo=1, hi=3)
            ops.append(["h", ["call", "mapv", [S, ["dict", [[k, float(i)] for i, k in enumerate(keys)]], ["lit", -1.0]]]])
        else:
            ops.append(["u", ["call", "if_else", [["call", "==", [S, ["lit", "a"]]], ["lit", lit], S]]])
        feats.append(kind)
    if ops:
        clean = []
        for name, e in ops:
            if not gen.ops_conflict(clean, name, e):
                clean.append([name, e])
        new = b.add({"op": "extend", "src": cur, "ops": clean})
        if new is not None:
            cur = new
    if g.boolean(0.25):
        # an assignment that reads what the previous step made, immediately overwritten by a constant: the builder merges
        # the two and must end up with the same shape as for the printed (already merged) text
        sch2 = b.schemas[cur]
        prev = b.case["nodes"][cur]
        made = [k for k, _ in prev["ops"]] if prev["op"] == "extend" and not prev.get("partition_by") and not prev.get("order_by") else []
        srcs = [c for c in (made or sch2.names()) if c in sch2.cols and sch2.cols[c]["type"] in NUM and not sch2.cols[c]["null"]]
        free = [n for n in ("h", "w", "y", "z", "x") if n not in sch2.cols]
        if srcs and free:
            n1 = b.add({"op": "extend", "src": cur, "ops": [[free[0], ["call", "*", [["call", "neg", [["col", g.pick(srcs)]]], ["lit", 1.0]]]]]})
            if n1 is not None:
                n2 = b.add({"op": "extend", "src": n1, "ops": [[free[0], ["call", "*", [["lit", 3.0], ["lit", 1.0]]]]]})
                cur = n2 if n2 is not None else n1
                feats.append("dead_then_constant")
    case = b.finish(cur)
    case["enrich"] = feats
    return case


def cases(closed=()):
    return st.composite(lambda draw: draw_case(draw, closed))()


def _eval(ops, tables):
    with warnings.catch_warnings():
        warnings.simplefilter("ignore")
        return cmp.normalise(ops.eval(tables))


def check(case):
    import pandas

    from data_algebra.expr_parse_fn import eval_da_ops

    info = {}
    try:
        ops = spec.build(case)
    except Exception as e:
        info["builder_rejected"] = f"{type(e).__name__}: {e}"
        return None, info
    tables = spec.pandas_tables(case, spec.used_tables(case))
    try:
        base = _eval(ops, tables)
    except Exception as e:
        base = None
        info["eval_raised"] = type(e).__name__
    ordered_by = c01.final_order_cols(case)
    forms = {
        "to_python": lambda: ops.to_python(pretty=False),
        "to_python_pretty": lambda: ops.to_python(pretty=True),
        "repr": lambda: repr(ops),
        "str": lambda: str(ops),
    }
    for label, fn in forms.items():
        try:
            txt = fn()
        except Exception as e:
            return Failure(f"{label} raises {type(e).__name__}: {e}", {"kind": "print_raises", "form": label, "exc": type(e).__name__}), info
        try:
            with warnings.catch_warnings():
                warnings.simplefilter("ignore")
                back = eval_da_ops(txt, data_model_map={"pd": pandas})
        except Exception as e:
            return (
                Failure(
                    f"text printed by {label} cannot be evaluated back: {type(e).__name__}: {e}",
                    {"kind": "reparse_raises", "form": label, "exc": type(e).__name__, "enrich": "+".join(case.get("enrich", []))},
                    {"text": txt[:1500]},
                ),
                info,
            )
        if not (back == ops) or (back != ops):
            return (
                Failure(
                    f"pipeline rebuilt from {label} does not compare equal to the original",
                    {"kind": "rebuilt_unequal", "form": label, "enrich": "+".join(case.get("enrich", []))},
                    {"text": txt[:1500], "rebuilt": back.to_python(pretty=False)[:1500]},
                ),
                info,
            )
        txt2 = {"to_python": lambda: back.to_python(pretty=False), "to_python_pretty": lambda: back.to_python(pretty=True), "repr": lambda: repr(back), "str": lambda: str(back)}[label]()
        if txt2 != txt:
            return (
                Failure(f"printing the rebuilt pipeline ({label}) gives different text", {"kind": "not_fixpoint", "form": label}, {"first": txt[:1200], "second": txt2[:1200]}),
                info,
            )
        if base is not None:
            try:
                r2 = _eval(back, tables)
            except Exception as e:
                return (
                    Failure(f"pipeline rebuilt from {label} fails to evaluate: {type(e).__name__}: {e}", {"kind": "rebuilt_eval_raises", "form": label}, {"text": txt[:1500]}),
                    info,
                )
            d = cmp.compare(base, r2, ordered_by=ordered_by)
            if d is not None:
                return (
                    Failure(
                        f"pipeline rebuilt from {label} computes a different result: {d}",
                        {"kind": "rebuilt_differs", "form": label, "enrich": "+".join(case.get("enrich", []))},
                        {"text": txt[:1500], "original": cmp.brief(base), "rebuilt": cmp.brief(r2)},
                    ),
                    info,
                )
    try:
        p2 = pickle.loads(pickle.dumps(ops))
    except Exception as e:
        return Failure(f"pickle round trip raises {type(e).__name__}: {e}", {"kind": "pickle_raises"}), info
    if not (p2 == ops):
        return Failure("unpickled pipeline does not compare equal to the original", {"kind": "pickle_unequal"}), info
    if base is not None:
        d = cmp.compare(base, _eval(p2, tables), ordered_by=ordered_by)
        if d is not None:
            return Failure(f"unpickled pipeline computes a different result: {d}", {"kind": "pickle_differs"}), info
    info["semantic"] = base is not None
    return None, info


def replay(check_name, case):
    f, _ = check(case)
    return f


def run(ctx):
    ev = ctx.ev
    ev.rule = (
        "random operator DAGs (vp.gen.programs, text and Term-object expression construction, joins incl. differently named keys, window "
        "options, limits, record maps) + one enrichment extend drawn from printing-sensitive forms ((-x)**2, (-3)**2, x**-1, -(x+1), -(-x), "
        "x-(x-1), (-x)*(-2.5); string literals with quotes/backslashes/newlines/unicode in ==, %+%, is_in lists, mapv dicts, if_else); "
        "non-trivial = the program contains an enrichment form or a unary minus / negative literal / collection; distinct = SHA-1 of the case"
    )
    ev.assumptions = [
        "results are compared on the Pandas executor; when the original pipeline itself cannot be evaluated on the data only equality and the text fixpoint are checked",
        "text forms are evaluated with data_algebra.expr_parse_fn.eval_da_ops (the library's documented way to read printed pipelines)",
    ]
    ctx.probe_findings(replay)

    def oracle(case):
        f, info = check(case)
        fs = gen.features(case) + ["enrich_" + k for k in case.get("enrich", [])]
        txt = ""
        try:
            txt = spec.build(case).to_python(pretty=False)
        except Exception:
            pass
        nt = bool(case.get("enrich")) or "-(" in txt or "[" in txt.split("column_names=[")[-1]
        if info.get("semantic"):
            fs.append("semantic_checked")
        ev.note(case, nt, fs, sample={"program": txt.strip(), "enrich": case.get("enrich")})
        for k in ("builder_rejected", "eval_raised"):
            if k in info:
                ev.count(k)
        return f

    ctx.campaign("main", cases(ctx.closed), oracle, max_examples=ctx.n(900, 48000))
