"""C07 — pipeline composition equals sequential application and is associative.

a : pipeline over table t1;   b : pipeline over a table description "mid" whose columns are a's output;
c : (sometimes) a pipeline over "mid2" = b's output.
For every composition route — a >> b, b.act_on(a), b.replace_leaves({"mid": a}), b.eval({"mid": a}),
DataOpArrow(a) >> DataOpArrow(b) — composed.eval(data) must equal b.eval({"mid": a.eval(data)}); routes agree with
each other; (a >> b) >> c and a >> (b >> c) give equal results and compare ==; DataOpArrow dom()/cod() describe the
composed arrow's input and (sorted) output columns and the result frame has exactly the cod columns.
"""

from __future__ import annotations

import warnings

from hypothesis import strategies as st

from .. import cmp, engines, gen, schema, spec
from ..common import Failure
from . import c01

PID = "C07"

A_CFG = {"n_tables": (1, 1), "max_nodes": 4, "final_order": 0.0, "ops": {"natural_join": 1, "concat_rows": 1, "convert_records": 1}}
B_OPS = {
    "extend": 4, "window": 2, "ordered_window": 4, "project": 2, "select_rows": 4, "select_columns": 2, "drop_columns": 2,
    "rename_columns": 2, "map_columns": 4, "order_rows": 3, "natural_join": 2, "concat_rows": 1, "convert_records": 1,
}


def table_from_schema(sch):
    cols = [[n, c["type"], bool(c["null"]), bool(c["zn"])] for n, c in sch.cols.items()]
    keys = [sorted(k) for k in sch.keys if len(k) > 0]
    return {"cols": cols, "rows": [], "keys": keys}


def draw_triple(draw):
    a = gen.draw_program(draw, A_CFG)
    sa = schema.infer(a)[a["root"]]
    g = gen.G(draw, {})
    boundary = None
    if g.boolean(0.3):
        # a ENDS in an ordered window, b BEGINS with one that differs in a single window parameter: the place where
        # composition meets the builder's extend merging
        pair = gen.window_pair(g, sa)
        if pair is not None:
            first, second, variant = pair
            first["src"] = a["root"]
            a["nodes"].append(first)
            try:
                sa2 = schema.out_schema(first, schema.infer(a), a)
                a["root"] = len(a["nodes"]) - 1
                sa = sa2
                boundary = (second, variant)
            except (schema.TypeErr, KeyError):
                a["nodes"].pop()
    if boundary is None and g.boolean(0.2):
        # a ENDS in an order_rows without limit (a step the builder may drop), b BEGINS with a top-k that has its own
        # order columns, a non-empty reverse and a limit: nothing of b's step may get lost when the two meet
        first = gen.step_order_rows(g, sa, final=False)
        second = gen.step_order_rows(g, sa, final=False)
        if first is not None and second is not None and second["cols"]:
            first["limit"] = None
            if second["limit"] is None:
                second["limit"] = g.pick([1, 2, 3])
            if not second["reverse"]:
                second["reverse"] = g.subset(second["cols"], lo=1, hi=len(second["cols"]))
            first["src"] = a["root"]
            a["nodes"].append(first)
            a["root"] = len(a["nodes"]) - 1
            boundary = (second, "order_rows_topk")
    bcfg = {"given_tables": {"mid": table_from_schema(sa)}, "only_given": True, "n_tables": (1, 1), "max_nodes": 4, "final_order": 0.15, "ops": B_OPS, "reuse_bias": True}
    if boundary is None:
        b = gen.draw_program(draw, bcfg)
    else:
        bg = gen.G(draw, bcfg)
        bb = gen.Builder(bg, bcfg)
        second = dict(boundary[0])
        second["src"] = bb.heads[0]
        cur = bb.add(second)
        if cur is None:
            cur = bb.heads[0]
        cur = bb.grow(cur, bg.pick([0, 0, 1, 2]), wander=0)
        b = bb.finish(cur)
        b["boundary_variant"] = boundary[1]
    out = {"a": a, "b": b, "c": None}
    if g.boolean(0.4):
        sb = schema.infer(b)[b["root"]]
        ccfg = {"given_tables": {"mid2": table_from_schema(sb)}, "only_given": True, "n_tables": (1, 1), "max_nodes": 3, "final_order": 0.15, "ops": B_OPS}
        out["c"] = gen.draw_program(draw, ccfg)
    return out


def triples():
    return st.composite(draw_triple)()


def _eval(ops, data):
    with warnings.catch_warnings():
        warnings.simplefilter("ignore")
        return ops.eval(data)


def _ordered_by(case):
    return c01.final_order_cols(case)


def check(tr):
    from data_algebra.arrow import DataOpArrow
    from data_algebra.view_representations import ViewRepresentation

    info = {}
    try:
        a = spec.build(tr["a"])
        b = spec.build(tr["b"])
        c = spec.build(tr["c"]) if tr.get("c") else None
    except Exception as e:
        info["builder_rejected"] = str(e)
        return None, info
    if len(b.get_tables()) != 1 or len(a.get_tables()) != 1:
        info["multi_table"] = True
    data = spec.pandas_tables(tr["a"], spec.used_tables(tr["a"]))
    # sequential application (the reference)
    try:
        ra = _eval(a, data)
        rb = _eval(b, {"mid": ra})
    except Exception as e:
        info["sequential_raised"] = type(e).__name__
        return None, info
    ref = cmp.normalise(rb)
    ob = _ordered_by(tr["b"])
    routes = {}
    single = len(b.get_tables()) == 1 and len(a.get_tables()) == 1

    def attempt(label, fn):
        try:
            comp = fn()
        except Exception as e:
            return Failure(
                f"composition route {label} raises {type(e).__name__}: {e} although sequential application succeeds",
                {"kind": "route_raises", "route": label, "exc": type(e).__name__},
            )
        if not isinstance(comp, ViewRepresentation):
            comp = comp.pipeline if isinstance(comp, DataOpArrow) else comp
        routes[label] = comp
        try:
            res = _eval(comp, data)
        except Exception as e:
            return Failure(
                f"pipeline composed by {label} fails to evaluate ({type(e).__name__}: {e}) although sequential application succeeds",
                {"kind": "composed_eval_raises", "route": label, "exc": type(e).__name__},
                {"composed": comp.to_python(pretty=False)},
            )
        d = cmp.compare(ref, cmp.normalise(res), ordered_by=ob)
        if d is not None:
            return Failure(
                f"{label}: composed pipeline result differs from b(a(data)): {d}",
                {"kind": "composition_differs", "route": label, "b_ops": "+".join(sorted({n['op'] for n in tr['b']['nodes']}))},
                {"sequential": cmp.brief(ref), "composed": cmp.brief(cmp.normalise(res)), "composed_pipeline": comp.to_python(pretty=False)},
            )
        return None

    todo = [("replace_leaves", lambda: b.replace_leaves({"mid": a})), ("eval_map", lambda: b.eval({"mid": a}))]
    if single:
        todo += [
            ("rshift", lambda: a >> b),
            ("act_on", lambda: b.act_on(a)),
            ("arrow", lambda: (DataOpArrow(a) >> DataOpArrow(b))),
        ]
    for label, fn in todo:
        f = attempt(label, fn)
        if f is not None:
            return f, info
    info["routes"] = len(routes)
    # routes agree structurally
    first = routes["replace_leaves"]
    for label, comp in routes.items():
        if not (comp == first):
            info["routes_structurally_differ"] = True  # counted only: every route's *result* was compared above
    # dom / cod of the composed arrow
    if single:
        arr = DataOpArrow(a) >> DataOpArrow(b)
        dom_cols = list(arr.dom().pipeline.column_names) if hasattr(arr.dom(), "pipeline") else None
        tname = spec.used_tables(tr["a"])[0]
        in_cols = [e[0] for e in tr["a"]["tables"][tname]["cols"]]
        cod_cols = list(arr.cod().pipeline.column_names) if hasattr(arr.cod(), "pipeline") else None
        if dom_cols is not None and list(dom_cols) != in_cols:
            return Failure(f"dom() columns {dom_cols} are not the composed arrow's input columns {in_cols}", {"kind": "dom"}), info
        if cod_cols is not None and list(cod_cols) != sorted(ref[0]):
            return Failure(f"cod() columns {cod_cols} are not the sorted output columns {sorted(ref[0])}", {"kind": "cod"}), info
        with warnings.catch_warnings():
            warnings.simplefilter("ignore")
            tr_res = arr.transform(data[tname])
        if set(str(x) for x in tr_res.columns) != set(cod_cols or ref[0]):
            return Failure(f"arrow.transform returned columns {list(tr_res.columns)}, cod says {cod_cols}", {"kind": "cod_result"}), info
        info["domcod"] = True
    # associativity
    if c is not None and single and len(c.get_tables()) == 1:
        try:
            rc = _eval(c, {"mid2": rb})
        except Exception as e:
            info["sequential_c_raised"] = type(e).__name__
            return None, info
        refc = cmp.normalise(rc)
        oc = _ordered_by(tr["c"])
        try:
            left = (a >> b) >> c
            right = a >> (b >> c)
        except Exception as e:
            return (
                Failure(f"triple composition raises {type(e).__name__}: {e} although sequential application succeeds", {"kind": "assoc_raises", "exc": type(e).__name__}),
                info,
            )
        for label, comp in (("(a>>b)>>c", left), ("a>>(b>>c)", right)):
            try:
                res = _eval(comp, data)
            except Exception as e:
                return Failure(f"{label} fails to evaluate: {type(e).__name__}: {e}", {"kind": "assoc_eval_raises", "side": label}), info
            d = cmp.compare(refc, cmp.normalise(res), ordered_by=oc)
            if d is not None:
                return (
                    Failure(
                        f"{label} differs from c(b(a(data))): {d}",
                        {"kind": "assoc_differs", "side": label},
                        {"sequential": cmp.brief(refc), "composed": cmp.brief(cmp.normalise(res)), "pipeline": comp.to_python(pretty=False)},
                    ),
                    info,
                )
        # NOTE: structural equality (left == right) is deliberately NOT demanded: the builder merges extends
        # depending on grouping order, and the property promises equal behaviour, not identical DAGs.
        if left == right:
            info["assoc_structurally_equal"] = True
        info["assoc"] = True
    return None, info


def replay(check_name, tr):
    f, _ = check(tr)
    return f


def run(ctx):
    ev = ctx.ev
    ev.rule = (
        "triples (a, b, c?): a = random DAG over one table (<=4 nodes), b = random DAG (<=4 nodes, every unary operator kind, joins/concat "
        "of b's own sub-pipelines) generated against a's output schema, c likewise against b's output in 40% of cases; five composition routes "
        "compared with sequential application on Pandas, with each other (==), dom/cod checked, associativity checked; non-trivial = a and b "
        "both have >=1 operator node and >=2 routes were exercised; distinct = SHA-1 of the triple"
    )
    ev.assumptions = [
        "evaluation on the Pandas executor only (composition is a builder-level property)",
        "b and c read exactly one table (the boundary), so every route incl. >> and DataOpArrow applies",
        "a case whose sequential application itself raises is not judged",
    ]
    ctx.probe_findings(replay)

    def oracle(tr):
        f, info = check(tr)
        na, nb = gen.n_ops(tr["a"]), gen.n_ops(tr["b"])
        fs = ["b_" + x for x in gen.features(tr["b"]) if not x.startswith(("depth", "mode", "table"))]
        if info.get("assoc"):
            fs.append("assoc_checked")
        if info.get("domcod"):
            fs.append("domcod_checked")
        nt = na >= 1 and nb >= 1 and info.get("routes", 0) >= 2
        ev.note(tr, nt, fs, sample={"a": c01._sample(tr["a"]), "b": c01._sample(tr["b"]), "c": c01._sample(tr["c"]) if tr.get("c") else None})
        for k in ("builder_rejected", "sequential_raised", "sequential_c_raised", "multi_table"):
            if k in info:
                ev.count(k)
        return f

    ctx.campaign("main", triples(), oracle, max_examples=ctx.n(900, 96000))
