"""C08 — results have exactly the columns the pipeline declares (every backend).

For each generated program the frame returned by Pandas, Polars (eager and lazy, when it returns), SQLite SQL and
PostgreSQL-dialect SQL (on the SQLite surrogate) must have exactly set(ops.column_names), without duplicates;
where the operators define the order (the last column-defining step is select_columns, possibly followed by
row-only steps) the order must match too.
"""

from __future__ import annotations

from .. import cmp, engines, gen, schema, spec
from ..common import Failure
from . import c01

PID = "C08"

BASE_CFG = {
    "engines": ("pandas", "sqlite"),
    "max_nodes": 7,
    "n_tables": (1, 2),
    "final_order": 0.2,
    "ops": {"select_columns": 4, "drop_columns": 3, "project": 4, "window": 4, "natural_join": 4, "map_columns": 2, "rename_columns": 2},
    "block_table_prob": 0.15,
}

ROW_ONLY = {"select_rows", "order_rows"}


def ordered_columns(case):
    """Column order fixed by the operators: the root is select_columns modulo row-only steps."""
    i = case["root"]
    while case["nodes"][i]["op"] in ROW_ONLY:
        i = case["nodes"][i]["src"]
    nd = case["nodes"][i]
    if nd["op"] == "select_columns":
        return list(nd["cols"])
    return None


def check_columns(case):
    info = {}
    try:
        ops = spec.build(case)
    except Exception as e:
        info["builder_rejected"] = str(e)
        return None, info
    declared = list(ops.column_names)
    names = spec.used_tables(case)
    order = ordered_columns(case)
    runs = {}
    pt = spec.pandas_tables(case, names)
    if case.get("wide_tables"):
        # the stored tables are WIDER than their descriptions (a description may list a subset of the columns):
        # nothing of the extra column may surface in any result
        for tn in pt:
            pt[tn] = pt[tn].copy()
            pt[tn]["zz_undeclared_" + tn] = 7
    try:
        runs["pandas"] = engines.run_pandas(ops, pt)[0]
    except engines.EngineError as e:
        info["raised_pandas"] = e.bucket()
    for lazy in (False, True):
        try:
            plt = spec.polars_tables(case, names)
            if case.get("wide_tables"):
                import polars as pl

                plt = {tn: df.with_columns(pl.lit(7).alias("zz_undeclared_" + tn)) for tn, df in plt.items()}
            runs["polars_lazy" if lazy else "polars"] = engines.run_polars(ops, plt, lazy=lazy)[0]
        except engines.EngineError as e:
            info["raised_polars"] = e.bucket()
    for dialect in ("sqlite", "pg"):
        eng = engines.SQLiteEngine(dialect)
        try:
            eng.load(pt)
            try:
                runs[dialect] = eng.run(ops)[0]
            except engines.EngineError as e:
                info["raised_" + dialect] = e.bucket()
        finally:
            eng.close()
    info["engines_returned"] = sorted(runs)
    for engine, cols in runs.items():
        if len(set(cols)) != len(cols):
            return Failure(f"{engine} returned duplicate columns {cols}", {"kind": "duplicate", "engine": engine}, {"declared": declared}), info
        if set(cols) != set(declared):
            extra = sorted(set(cols) - set(declared))
            missing = sorted(set(declared) - set(cols))
            return (
                Failure(
                    f"{engine} returned columns {cols}, pipeline declares {declared} (extra {extra}, missing {missing})",
                    {"kind": "column_set", "engine": engine},
                    {"declared": declared, "returned": cols},
                ),
                info,
            )
        if order is not None and list(cols) != order:
            return (
                Failure(
                    f"{engine} returned column order {cols}, select_columns fixed {order}",
                    {"kind": "column_order", "engine": engine},
                    {"declared": declared, "returned": cols},
                ),
                info,
            )
    return None, info


def replay(check, case):
    f, _ = check_columns(case)
    return f


def run(ctx):
    ev = ctx.ev
    ev.rule = (
        "random operator DAGs (vp.gen.programs biased to column-changing steps, empty inputs, projects and windows) run on Pandas, "
        "Polars eager+lazy, SQLite SQL and PostgreSQL-dialect SQL (SQLite surrogate); non-trivial = >=1 column-changing node "
        "(extend/project/select/drop/rename/map/join/concat/convert_records) and >=2 engines returned; distinct = SHA-1 of the case JSON"
    )
    ev.assumptions = [
        "PostgreSQL-dialect SQL is executed on the SQLite surrogate",
        "column ORDER is only checked where select_columns is the last column-defining step (nothing else documents an order)",
        "an engine that raises contributes nothing (raising is judged by C01/C03, not here)",
    ]
    ctx.probe_findings(replay)
    cfg = dict(BASE_CFG)
    cfg["closed"] = set(ctx.closed)
    changing = {"extend", "window", "ordered_window", "project", "project_ungrouped", "select_columns", "drop_columns", "rename_columns", "map_columns", "join", "concat_rows", "convert_records"}

    def oracle(case):
        f, info = check_columns(case)
        fs = gen.features(case)
        nret = len(info.get("engines_returned", []))
        nt = bool(changing & set(fs)) and nret >= 2
        if ordered_columns(case) is not None:
            fs = fs + ["order_fixed_by_select_columns"]
        ev.note(case, nt, fs, sample={"program": c01._sample(case), "engines_returned": info.get("engines_returned")})
        ev.count("engine_runs", nret)
        for k in info:
            if k.startswith("raised_") or k == "builder_rejected":
                ev.count(k)
        return f

    from hypothesis import strategies as st

    strat = st.tuples(gen.programs(cfg), st.booleans()).map(lambda t: {**t[0], "wide_tables": t[1]})
    ctx.campaign("main", strat, oracle, max_examples=ctx.n(900, 32000))
