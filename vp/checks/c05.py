"""C05 — every catalogued method behaves as documented on every backend that claims it.

Outer enumeration (finite, exhaustive): every row of `data_algebra.op_catalog.methods_table` x
{Pandas, SQLiteModel, PostgreSQLModel where the catalogue says 'y'; Polars for every row}.  PostgreSQL cells
run the PostgreSQL-dialect SQL on SQLite (labelled surrogate) and only where that SQL is engine neutral.
Inner search: one small Hypothesis campaign per cell over argument frames drawn from the method's documented
domain (vp/methods.py), compared value by value with the reference function of the method table.

Failures are keyed by cell `(op, op_class, backend, argclass[, shape])`; a campaign stops only its own cell.
"""

from __future__ import annotations

import json
import math
import os
import re
import warnings
from typing import Any, Dict, List, Optional, Tuple

from .. import cmp, engines, methods, spec
from ..common import Failure, HarnessError

PID = "C05"
SHARDABLE = True

BACKENDS = ("pandas", "sqlite", "pg", "polars")
CATALOG_COLUMN = {"pandas": "Pandas", "sqlite": "SQLiteModel", "pg": "PostgreSQLModel"}
ARGCLASSES = ("all_null", "null", "nan", "boundary", "empty_string", "zero", "negative", "plain")
SIZES = [1, 2, 3, 5, 6, 7, 8, 9, 10, 6, 8, 10]  # "about 5-10 rows", single row forced, small ones for shrinking
QUICK_EXAMPLES = 30
THOROUGH_EXAMPLES = 16 * 110  # ~10 min wall on 16 cores (16 * 400 measured 34 min)


# ----------------------------------------------------------------------------------------------
# enumeration


def catalogue_rows():
    import data_algebra.op_catalog as oc

    t = oc.methods_table
    rows = []
    for i in range(t.shape[0]):
        r = t.iloc[i]
        rows.append(
            {
                "i": i,
                "op": str(r["op"]),
                "op_class": str(r["op_class"]),
                "expression": str(r["expression"]),
                "flags": {b: str(r[c]) for b, c in CATALOG_COLUMN.items()},
            }
        )
    return rows


def enumerate_cells():
    """-> (cells, not_checked{bucket: [..]}, not_executable_here[..]); raises when the table and the
    catalogue disagree (harness error, never a violation)."""
    rows = catalogue_rows()
    keys = {(r["op"], r["op_class"], r["expression"]) for r in rows}
    if keys != set(methods.BY_KEY):
        raise HarnessError(
            f"method table out of date: missing {sorted(keys - set(methods.BY_KEY))}, extra {sorted(set(methods.BY_KEY) - keys)}"
        )
    cells = []
    not_checked: Dict[str, List[str]] = {}
    not_exec: List[str] = []
    unclaimed = 0
    for r in rows:
        e = methods.BY_KEY[(r["op"], r["op_class"], r["expression"])]
        label = f"{r['op']} [{r['op_class']}] {r['expression']}"
        if e.skip is not None:
            not_checked.setdefault(e.skip[0], []).append(label)
            continue
        for b in BACKENDS:
            if b != "polars" and r["flags"][b] != "y":
                unclaimed += 1
                continue
            if b == "pg" and not e.pg_neutral:
                not_exec.append(label)
                continue
            cells.append({"row": r["i"], "entry": e, "backend": b, "name": cell_name(r["i"], e, b)})
    return cells, not_checked, not_exec, unclaimed


def cell_name(i, e, b):
    return f"r{i:03d}_{re.sub(r'[^A-Za-z0-9_]', '', e.op) or 'op'}_{e.op_class}_{b}"


# ----------------------------------------------------------------------------------------------
# generation


def _ordered_pool(col):
    """Plain values first (so that shrinking ends on a plain value unless a special one is needed)."""
    bd = set(col.boundary)

    def special(v):
        if isinstance(v, bool):
            return False
        if isinstance(v, str):
            return v == ""
        return v <= 0 or v in bd

    plain = [v for v in col.pool if not special(v)]
    rest = [v for v in col.pool if special(v)]
    if plain and not isinstance(plain[0], (str, bool)):
        plain.sort(key=lambda v: (abs(v - 1), v))
        rest.sort(key=lambda v: (abs(v), v))
    return plain + rest


def _specials(col):
    sp = []
    if col.null:
        sp += [None, None]
    if col.nan:
        sp += [float("nan")]
    if col.inf:
        sp += [float("inf"), float("-inf")]
    sp += list(col.boundary)
    for z in (0, 0.0, ""):
        if any(type(v) is type(z) and v == z for v in col.pool):
            sp.append(z)
    neg = [v for v in col.pool if not isinstance(v, (str, bool)) and v < 0]
    if neg:
        sp += [max(neg), min(neg)]
    return sp


def case_strategy(entry, backend):
    from hypothesis import strategies as st

    variants = [v for v in entry.variants if v.backends is None or backend in v.backends]

    @st.composite
    def build(draw):
        v = draw(st.sampled_from(variants))
        params = {k: draw(st.sampled_from(list(choices))) for k, choices in sorted(v.params.items())}
        n = draw(st.sampled_from(SIZES))
        cols = [["rid", "int", False]]
        data = [list(draw(st.permutations(list(range(n)))))]
        if entry.kind in ("agg", "win") and entry.op_class != "e":
            cols.append(["g", "str", False])
            data.append(draw(st.lists(st.sampled_from(methods.GROUPS), min_size=n, max_size=n)))
        for col in v.cols:
            cols.append([col.name, col.typ, bool(col.null or col.nan)])
            pool = _ordered_pool(col)
            if col.distinct:
                vals = list(draw(st.permutations(pool)))[:n]
            else:
                sp = _specials(col)
                elem = st.sampled_from(pool)
                if sp:
                    elem = st.one_of(elem, st.sampled_from(sp))
                mode = draw(st.sampled_from(["mixed", "mixed", "mixed", "all_null"] if col.null else ["mixed"]))
                if mode == "all_null":
                    vals = [None] * n
                else:
                    vals = draw(st.lists(elem, min_size=n, max_size=n))
            data.append(vals)
        rows = [[data[j][i] for j in range(len(cols))] for i in range(n)]
        return {
            "op": entry.op,
            "op_class": entry.op_class,
            "expression": entry.expression,
            "backend": backend,
            "shape": v.shape,
            "params": params,
            "frame": {"cols": cols, "rows": rows},
            "expr": v.expr(params),
        }

    return build()


# ----------------------------------------------------------------------------------------------
# classification of argument values


def _isnan(v):
    return isinstance(v, float) and math.isnan(v)


def _nullish(argclass) -> bool:
    return argclass in ("null", "all_null")


def classify(values_cols) -> str:
    """values_cols: list of (list of values, Col). Priority order = ARGCLASSES."""
    if not values_cols:
        return "plain"
    flat = [(x, col) for vals, col in values_cols for x in vals]
    for vals, col in values_cols:
        if col.null and len(vals) > 1 and all(x is None for x in vals):
            return "all_null"
    if any(x is None for x, _ in flat):
        return "null"
    if any(_isnan(x) for x, _ in flat):
        return "nan"
    if any(isinstance(x, float) and math.isinf(x) for x, _ in flat):
        return "boundary"
    if any(isinstance(x, str) and x == "" for x, _ in flat):
        return "empty_string"
    nums = [(x, col) for x, col in flat if isinstance(x, (int, float)) and not isinstance(x, bool)]
    if any(x in col.boundary for x, col in nums):
        return "boundary"
    if any(x == 0 for x, _ in nums):
        return "zero"
    if any(x < 0 for x, _ in nums):
        return "negative"
    return "plain"


# ----------------------------------------------------------------------------------------------
# building and running


def build_ops(case, entry):
    from data_algebra.view_representations import TableDescription

    names = [c[0] for c in case["frame"]["cols"]]
    td = TableDescription(table_name="d", column_names=names)
    text = spec.expr_text(case["expr"])
    if entry.kind == "row" or entry.op_class == "e":
        return td.extend({"r": text}).select_columns(["rid", "r"]), "rid"
    if entry.op_class in ("p", "up"):
        return td.project({"r": text}, group_by=["g"]), "g"
    if entry.op_class == "g":
        return td.extend({"r": text}, partition_by=["g"]).select_columns(["rid", "r"]), "rid"
    if entry.op_class == "w":
        kw = {"reverse": ["rid"]} if case["params"].get("reverse") else {}
        return td.extend({"r": text}, partition_by=["g"], order_by=["rid"], **kw).select_columns(["rid", "r"]), "rid"
    raise HarnessError(f"unknown op_class {entry.op_class}")


def reference(case, entry, variant):
    """-> (key column, {key: expected}, {key: argclass}, frame-level argclass)"""
    cols = [c[0] for c in case["frame"]["cols"]]
    rows = case["frame"]["rows"]
    ix = {c: i for i, c in enumerate(cols)}
    params = dict(case["params"])
    argcols = variant.cols
    expected: Dict[Any, Any] = {}
    klass: Dict[Any, str] = {}
    frame_class = classify([([r[ix[c.name]] for r in rows], c) for c in argcols])
    if entry.kind == "row":
        for r in rows:
            args = [r[ix[c.name]] for c in argcols]
            expected[r[ix["rid"]]] = variant.ref(*args, **params)
            klass[r[ix["rid"]]] = classify([([a], c) for a, c in zip(args, argcols)])
        return expected, klass, frame_class
    # partitions
    if "g" in ix:
        groups: Dict[str, list] = {}
        for r in rows:
            groups.setdefault(r[ix["g"]], []).append(r)
    else:
        groups = {"": list(rows)}
    rev = bool(params.get("reverse")) and entry.kind == "win"
    for gk in sorted(groups):
        grows = sorted(groups[gk], key=lambda r: r[ix["rid"]], reverse=rev)
        if argcols:
            vals = [r[ix[argcols[0].name]] for r in grows]
            kc = classify([(vals, argcols[0])])
        else:
            vals = [None] * len(grows)
            kc = "plain"
        out = variant.ref(vals, **params)
        if entry.kind == "win":
            if len(out) != len(grows):
                raise HarnessError("window reference returned a wrong length")
            for r, o in zip(grows, out):
                expected[r[ix["rid"]]] = o
                klass[r[ix["rid"]]] = kc
        elif entry.op_class in ("p", "up"):
            expected[gk] = out
            klass[gk] = kc
        else:
            for r in grows:
                expected[r[ix["rid"]]] = out
                klass[r[ix["rid"]]] = kc
    return expected, klass, frame_class


def _accepts(exp, got) -> bool:
    if isinstance(exp, methods.AnyOf):
        return any(cmp.cell_eq(cmp.norm_cell(v), got) for v in exp.values)
    return cmp.cell_eq(cmp.norm_cell(exp), got)


def _show(exp):
    if isinstance(exp, methods.AnyOf):
        return "one of " + repr(exp.values)
    return repr(cmp.norm_cell(exp))


def run_backend(case, ops, eng=None):
    """-> ((cols, rows), sql or None); raises engines.EngineError."""
    b = case["backend"]
    tbl = case["frame"]
    if b == "pandas":
        return engines.run_pandas(ops, {"d": spec.pandas_frame(tbl)}), None
    if b == "polars":
        return engines.run_polars(ops, {"d": spec.polars_frame(tbl)}, lazy=False), None
    own = eng is None
    if own:
        eng = engines.SQLiteEngine("sqlite" if b == "sqlite" else "pg")
    try:
        eng.load({"d": spec.pandas_frame(tbl)})
        sql = eng.to_sql(ops)
        with warnings.catch_warnings():
            warnings.simplefilter("ignore")
            try:
                res = eng.handle.read_query(sql)
            except Exception as e:  # noqa
                err = engines.EngineError(eng.dialect, "execute", e)
                err.sql = sql
                raise err
        return cmp.normalise(res), sql
    finally:
        if own:
            eng.close()


def _surrogate_cannot_run(err) -> bool:
    """SQLite refused PostgreSQL-only syntax / functions, or a Python shim aggregate (STDDEV_SAMP, VAR_SAMP)
    was asked to act as a window function (sqlite3 user aggregates cannot): inconclusive, not a violation."""
    if engines.surrogate_cannot_run(err):
        return True
    return err.stage == "execute" and "may not be used as a window function" in str(err.exc).lower()


class Outcome:
    def __init__(self):
        self.failures: List[Failure] = []
        self.features: List[str] = []
        self.nontrivial = False
        self.status = "returned"  # returned | raised | not_executable
        self.bucket = None


def evaluate(case, eng=None) -> Outcome:
    out = Outcome()
    entry = methods.BY_KEY.get((case["op"], case["op_class"], case["expression"]))
    if entry is None or entry.skip is not None:
        raise HarnessError(f"no checkable method-table entry for {case['op']!r} / {case['expression']!r}")
    variant = entry.variant(case["shape"])
    backend = case["backend"]
    base_sig = {"op": entry.op, "op_class": entry.op_class, "backend": backend, "shape": variant.shape}
    expected, klass, frame_class = reference(case, entry, variant)
    n = len(case["frame"]["rows"])
    present = sorted(set(klass.values()))
    out.nontrivial = frame_class != "plain" or n == 1 or any(k != "plain" for k in present)
    out.features = [f"backend:{backend}", f"class:{entry.op_class}"] + [f"arg:{k}" for k in present]
    if n == 1:
        out.features.append("single_row")
    ops, keycol = build_ops(case, entry)
    try:
        (rcols, rrows), sql = run_backend(case, ops, eng)
    except engines.EngineError as err:
        out.bucket = type(err.exc).__name__
        if backend == "polars":
            out.status = "raised"  # allowed by the property: "whenever it does not raise"
            return out
        if backend == "pg" and _surrogate_cannot_run(err):
            out.status = "not_executable"
            return out
        out.status = "raised"
        sig = dict(base_sig, kind="raised", argclass=frame_class, has_null=_nullish(frame_class), bucket=err.bucket())
        out.failures.append(
            Failure(
                f"{entry.op} [{entry.op_class}] on {backend}: catalogue claims support but evaluation raised {err}",
                sig,
                {"expr": spec.expr_text(case["expr"]), "sql": getattr(err, "sql", None)},
            )
        )
        return out
    detail = {"expr": spec.expr_text(case["expr"]), "sql": sql, "result": {"columns": rcols, "rows": rrows[:12]}}
    if set(rcols) != {keycol, "r"}:
        out.failures.append(Failure(f"{entry.op} on {backend}: result columns {rcols}", dict(base_sig, kind="shape", argclass=frame_class, has_null=_nullish(frame_class)), detail))
        return out
    ki, ri = rcols.index(keycol), rcols.index("r")
    got: Dict[Any, Any] = {}
    dup = False
    for r in rrows:
        k = r[ki]
        if keycol == "rid" and isinstance(k, float):
            k = int(k)
        if k in got:
            dup = True
        got[k] = r[ri]
    if dup or set(got) != set(expected):
        out.failures.append(
            Failure(
                f"{entry.op} [{entry.op_class}] on {backend}: result keys {sorted(got, key=repr)} differ from expected {sorted(expected, key=repr)}",
                dict(base_sig, kind="shape", argclass=frame_class, has_null=_nullish(frame_class)),
                detail,
            )
        )
        return out
    by_class: Dict[str, Tuple[Any, Any, Any]] = {}
    if any(isinstance(v, methods.Labelling) for v in expected.values()):
        # `_ngroup`: any injective labelling of the groups
        cols = [c[0] for c in case["frame"]["cols"]]
        gi, idx = cols.index("g"), cols.index("rid")
        lab: Dict[str, set] = {}
        for r in case["frame"]["rows"]:
            lab.setdefault(r[gi], set()).add(got[r[idx]])
        vals = [next(iter(s)) for s in lab.values() if len(s) == 1]
        ok = all(len(s) == 1 for s in lab.values()) and None not in vals and len(set(vals)) == len(lab)
        if not ok:
            by_class["plain"] = ("<group>", "an injective group labelling", {k: sorted(map(repr, s)) for k, s in lab.items()})
    else:
        for k in sorted(expected, key=repr):
            if not _accepts(expected[k], got[k]):
                by_class.setdefault(klass[k], (k, expected[k], got[k]))
    for ac in ARGCLASSES:
        if ac in by_class:
            k, exp, g = by_class[ac]
            out.failures.append(
                Failure(
                    f"{entry.op} [{entry.op_class}] `{spec.expr_text(case['expr'])}` on {backend}, argument class {ac}: "
                    f"at {keycol}={k!r} got {g!r}, documented value {_show(exp)}",
                    dict(base_sig, kind="value", argclass=ac, has_null=_nullish(ac)),
                    dict(detail, key=k, expected=_show(exp), got=g),
                )
            )
    return out


def replay(check, case):
    out = evaluate(case)
    return out.failures[0] if out.failures else None


# ----------------------------------------------------------------------------------------------
# run


def _extra_findings(ctx):
    """VP_EXTRA_FINDINGS=/path/to.json: entries (same format as known_findings.json) appended to the loaded
    findings before probing — used to try proposed entries without editing known_findings.json."""
    path = os.environ.get("VP_EXTRA_FINDINGS")
    if not path:
        return 0
    with open(path) as f:
        extra = json.load(f)
    have = {e.get("id") for e in ctx.findings.entries}
    n = 0
    for e in extra:
        if e.get("property") != PID or e.get("id") in have:
            continue
        ctx.findings.entries.append(e)
        if e.get("status") == "open":
            ctx.findings.open.append(e)
        elif e.get("status") == "fixed":
            ctx.findings.fixed.append(e)
        n += 1
    return n


def run(ctx):
    ev = ctx.ev
    cells, not_checked, not_exec, unclaimed = enumerate_cells()
    ev.exhaustive = True
    ev.rule = (
        "EXHAUSTIVE only for the OUTER enumeration: all 124 rows of op_catalog.methods_table x {Pandas, SQLite, "
        "PostgreSQL(dialect SQL on the SQLite surrogate, engine-neutral SQL only) where the catalogue says 'y'; Polars "
        "eager for every row}; rows of date/time methods, `_uniform` and the undocumented `_count()` are listed, not "
        "checked. INNER per-cell search is sampling: a seeded Hypothesis campaign draws argument frames (1-10 rows, "
        "mostly 5-10; unique int row id in shuffled order; partition column for classes g/w/p/up) from the method's "
        "documented domain in vp/methods.py with forced special values (null / all-null column where the docstring "
        "states a null rule, NaN only for is_nan/is_bad, +-inf only for is_inf/is_bad, 0, negatives, domain boundaries, "
        "ties, empty string, single row) and literal parameters from finite lists; every result row is compared with "
        "the reference function (tolerant float equality, acceptable sets where the documentation leaves a choice). "
        "non-trivial = the frame contains a special-class argument value or is a single row; distinct = SHA-1 of "
        "(cell, shape, parameters, frame)."
    )
    ev.assumptions = list(methods.GLOBAL_ASSUMPTIONS) + sorted({a for e in methods.ENTRIES for a in e.assumptions}) + [
        "PostgreSQL cells execute PostgreSQLModel SQL on SQLite 3.x with the library's SQLite helper functions and LN / "
        "STDDEV_SAMP / VAR_SAMP shims: they check the generated SQL text under the assumption that equally named "
        "functions have their standard meaning; is_nan / is_inf / is_bad (infinity literals, NaN storage) are not executable here",
        "expressions are sent as text through the parser (the catalogue's own form); the Term-object path is C13's subject",
        "a Polars exception is allowed by the property and only counted",
        "window cells use partition_by=['g'], order_by=['rid'] with optional reverse=['rid']; g cells partition_by only; p/up cells project(group_by=['g']); e cells a plain extend",
    ]
    ev.trusted_base = ["vp/methods.py reference functions (math / statistics / decimal)", "vp.cmp cell normalisation", "SQLite 3 as executor of both SQL dialects"]
    ev.extra["extra_findings_loaded"] = _extra_findings(ctx)
    ctx.probe_findings(replay)

    per_backend = {b: {"cells": 0, "evaluations": 0, "failing_cells": 0} for b in BACKENDS}
    polars_cells: Dict[str, Dict[str, int]] = {}
    runtime_not_exec: Dict[str, int] = {}

    for cell in cells:
        entry, backend, name = cell["entry"], cell["backend"], cell["name"]
        per_backend[backend]["cells"] += 1
        eng = None
        if backend in ("sqlite", "pg"):
            eng = engines.SQLiteEngine("sqlite" if backend == "sqlite" else "pg")
        stats = {"returned": 0, "raised": 0, "not_executable": 0}
        buckets: Dict[str, int] = {}

        def oracle(case, entry=entry, backend=backend, eng=eng, stats=stats, buckets=buckets):
            out = evaluate(case, eng)
            ev.note(case, out.nontrivial, out.features + [f"{backend}:{out.status}"])
            per_backend[backend]["evaluations"] += 1
            stats[out.status] += 1
            if out.status != "returned" and out.bucket:
                buckets[out.bucket] = buckets.get(out.bucket, 0) + 1
                if backend == "polars":
                    ev.count(f"polars_raised:{out.bucket}")
            if backend == "polars" and out.status == "returned":
                ev.count("polars_returned")
            if out.status == "not_executable":
                ev.count("pg_surrogate_cannot_run")
            if not out.failures:
                return None
            for f in out.failures:  # report a class not yet recorded before a recorded one
                if ctx.findings.match(f.sig) is None:
                    return f
            return out.failures[0]

        try:
            ok = ctx.campaign(
                name,
                case_strategy(entry, backend),
                oracle,
                max_examples=ctx.n(QUICK_EXAMPLES, THOROUGH_EXAMPLES),
                shrink_budget_s=10.0 if ctx.tier == "quick" else 60.0,
            )
        finally:
            if eng is not None:
                eng.close()
        if not ok:
            per_backend[backend]["failing_cells"] += 1
        label = f"{entry.op} [{entry.op_class}] {entry.expression}"
        if backend == "polars":
            polars_cells[label] = dict(stats, **{f"exc:{k}": v for k, v in buckets.items()})
        if backend == "pg" and stats["not_executable"]:
            runtime_not_exec[label] = stats["not_executable"]

    ev.extra["catalogue_rows"] = len(methods.ENTRIES)
    ev.extra["cells_per_backend"] = per_backend
    ev.extra["cells_total"] = len(cells)
    ev.extra["catalogue_says_not_supported_cells"] = unclaimed
    ev.extra["not_executable_here"] = {"static_not_engine_neutral": not_exec, "surrogate_refused_at_run_time": runtime_not_exec}
    for k, v in not_checked.items():
        ev.extra[k] = v
    ev.extra["not_checked_reasons"] = {e.skip[0]: e.skip[1] for e in methods.ENTRIES if e.skip}
    always = sorted(k for k, v in polars_cells.items() if v["returned"] == 0 and v["raised"] > 0)
    ev.extra["polars"] = {
        "cells_always_raising": always,
        "cells_sometimes_raising": sorted(k for k, v in polars_cells.items() if v["returned"] > 0 and v["raised"] > 0),
        "cells_returning": sum(1 for v in polars_cells.values() if v["raised"] == 0),
        "raise_types_by_cell": {k: {a: b for a, b in v.items() if a.startswith("exc:")} for k, v in polars_cells.items() if v["raised"]},
    }
