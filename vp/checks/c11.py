"""C11 — pipelines that compare equal behave identically (metamorphic point mutations).

For a generated pipeline p, q is p with exactly ONE point mutation of its spec (a literal's value or type, an
operator / method, a column reference, jointype, a join key pair, reverse set, limit, partition_by / order_by,
concat_rows id_column / labels, a record-map cell / key, list order, a table's column list), or an independent
rebuild of p.  Required: (p == q) == (q == p); p == rebuild(p); and whenever p == q holds, to_sql is identical in
the SQLite, PostgreSQL, BigQuery, Spark and MySQL dialects and the Pandas results are identical on the case data
and two perturbed data sets.  (The converse — different pipelines comparing unequal — is not required.)
"""

from __future__ import annotations

import copy
import warnings

from hypothesis import strategies as st

from .. import cmp, engines, gen, schema, spec
from ..common import Failure
from . import c01

PID = "C11"

BASE_CFG = {"max_nodes": 5, "n_tables": (1, 2), "final_order": 0.3, "expr_mode": "text",
            "ops": {"convert_records": 3, "natural_join": 5, "concat_rows": 3, "ordered_window": 4, "order_rows": 3}}

MUTATIONS = [
    "none", "lit_value", "lit_type", "operator", "method", "column_ref", "jointype", "join_on", "reverse", "limit", "partition_by",
    "order_by", "concat_id", "concat_label", "record_cell", "record_key", "select_order", "group_by_order", "order_cols_order",
    "table_columns", "drop_list", "rename_target", "extend_target", "collection", "logic_chain", "window_flag",
]


def _exprs(nd):
    """(container, index) handles of expression roots in a node."""
    out = []
    if nd["op"] in ("extend", "project"):
        for o in nd["ops"]:
            out.append((o, 1))
    elif nd["op"] == "select_rows":
        out.append((nd, "expr"))
    return out


def _walk(e, path=()):
    yield e, path
    if e[0] == "call":
        for i, a in enumerate(e[2]):
            yield from _walk(a, path + (i,))


def _subst(root_holder, key, path, new):
    e = root_holder[key]
    if not path:
        root_holder[key] = new
        return
    for i in path[:-1]:
        e = e[2][i]
    e[2][path[-1]] = new


def mutate(case, kind, pick):
    """Return a mutated deep copy or None if the mutation does not apply. `pick(list)` makes the choices."""
    c = spec.clone(case)
    reach = [i for i in spec.reachable(c) if c["nodes"][i]["op"] != "table"]
    sch = schema.infer(c)
    if kind == "none":
        return c
    if kind == "logic_chain":
        # `a and b` -> `a and b and a`: one n-ary expression whose argument list is a proper extension of the other's
        sites = []
        for i in reach:
            for holder, key in _exprs(c["nodes"][i]):
                for sub, path in _walk(holder[key]):
                    if sub[0] == "call" and sub[1] in ("and", "or") and len(sub[2]) == 2:
                        sites.append((holder, key, path, sub))
        import copy as _copy

        if not sites:
            # no chain in the program: make one out of a select_rows condition e -> p: (e and e), q: (e and e and e)
            sel = [i for i in reach if c["nodes"][i]["op"] == "select_rows"]
            if not sel:
                return None
            i = pick(sel)
            e = c["nodes"][i]["expr"]
            op = pick(["and", "or"])
            p2 = spec.clone(c)
            p2["nodes"][i]["expr"] = ["call", op, [_copy.deepcopy(e), _copy.deepcopy(e)]]
            c["nodes"][i]["expr"] = ["call", op, [_copy.deepcopy(e), _copy.deepcopy(e), _copy.deepcopy(e)]]
            c["_pair_p"] = p2
            return c
        holder, key, path, sub = pick(sites)
        _subst(holder, key, path, ["call", sub[1], list(sub[2]) + [_copy.deepcopy(sub[2][0])]])
        return c
    if kind == "collection":
        # one element of an is_in list / one entry of a mapv dict changed, added or removed
        sites = []
        for i in reach:
            for holder, key in _exprs(c["nodes"][i]):
                for sub, path in _walk(holder[key]):
                    if sub[0] in ("list", "dict") and len(sub[1]) >= 1:
                        sites.append((holder, key, path, sub))
        if not sites:
            return None
        holder, key, path, sub = pick(sites)
        items = [list(x) if isinstance(x, list) else x for x in sub[1]]
        how = pick(["change", "change", "append", "drop"] if len(items) > 1 else ["change", "append"])
        bump = lambda v: (v + 1) if isinstance(v, (int, float)) and not isinstance(v, bool) else (str(v) + "~")  # noqa: E731
        j = pick(list(range(len(items))))
        if sub[0] == "list":
            if how == "change":
                items[j] = bump(items[j])
            elif how == "append":
                items.append(bump(items[-1]))
            else:
                items.pop(j)
            if len(set(map(repr, items))) != len(items):
                return None
        else:
            if how == "change":
                items[j] = [items[j][0], bump(items[j][1])] if pick([True, False]) else [bump(items[j][0]), items[j][1]]
            elif how == "append":
                items.append([bump(items[-1][0]), items[-1][1]])
            else:
                items.pop(j)
            if len({repr(k) for k, _ in items}) != len(items):
                return None
        _subst(holder, key, path, [sub[0], items])
        return c
    if kind in ("lit_value", "lit_type", "operator", "method", "column_ref"):
        sites = []
        for i in reach:
            nd = c["nodes"][i]
            for holder, key in _exprs(nd):
                for sub, path in _walk(holder[key]):
                    if kind in ("lit_value", "lit_type") and sub[0] == "lit" and isinstance(sub[1], (int, float)) and not isinstance(sub[1], bool):
                        sites.append((i, holder, key, path, sub))
                    if kind == "operator" and sub[0] == "call" and sub[1] in ("+", "-", "*", "<", "<=", ">", ">=", "==", "!=", "and", "or"):
                        sites.append((i, holder, key, path, sub))
                    if kind == "method" and sub[0] == "call" and sub[1] in ("max", "min", "sum", "mean", "cummax", "cummin", "floor", "ceil", "maximum", "minimum", "count", "size"):
                        sites.append((i, holder, key, path, sub))
                    if kind == "column_ref" and sub[0] == "col":
                        sites.append((i, holder, key, path, sub))
        if kind == "lit_type" and (not sites or pick([True, False, False])):
            # a fresh pair: the same step assigns the literal 1 / 1.0 / True (equal as Python values, different SQL)
            anchors = [j for j in spec.reachable(c) if c["nodes"][j]["op"] != "extend"]
            if anchors:
                i = pick(anchors)
                free = [n for n in ("n", "c", "b", "k", "a") if n not in sch[i].cols]
                if free:
                    va, vb = pick([(1, True), (1, 1.0), (0, False), (True, 1.0)])
                    p2 = spec.clone(c)
                    p2["nodes"].append({"op": "extend", "src": i, "ops": [[free[0], ["lit", va]]]})
                    p2["root"] = len(p2["nodes"]) - 1
                    c["nodes"].append({"op": "extend", "src": i, "ops": [[free[0], ["lit", vb]]]})
                    c["root"] = len(c["nodes"]) - 1
                    c["_pair_p"] = p2
                    return c
        if not sites:
            return None
        i, holder, key, path, sub = pick(sites)
        if kind == "lit_value":
            new = ["lit", sub[1] + 1]
        elif kind == "lit_type":
            v = sub[1]
            if isinstance(v, int) and v in (0, 1) and pick([True, True, True, False]):
                new = ["lit", bool(v)]  # 1 vs True: equal as Python values, different SQL (1 / TRUE)
            elif isinstance(v, int):
                new = ["lit", float(v)]
            elif float(v).is_integer():
                new = ["lit", int(v)]
            else:
                return None
        elif kind == "operator":
            swap = {"+": "-", "-": "+", "*": "+", "<": "<=", "<=": "<", ">": ">=", ">=": ">", "==": "!=", "!=": "==", "and": "or", "or": "and"}
            new = ["call", swap[sub[1]], sub[2]]
        elif kind == "method":
            swap = {"max": "min", "min": "max", "sum": "mean", "mean": "sum", "cummax": "cummin", "cummin": "cummax", "floor": "ceil", "ceil": "floor",
                    "maximum": "minimum", "minimum": "maximum", "count": "size", "size": "count"}
            new = ["call", swap[sub[1]], sub[2]]
        else:
            src = c["nodes"][i].get("src")
            if src is None:
                return None
            t = sch[src].cols.get(sub[1], {}).get("type")
            others = [n for n, ci in sch[src].cols.items() if ci["type"] == t and n != sub[1] and not ci["zn"]]
            if not others:
                return None
            new = ["col", pick(others)]
        _subst(holder, key, path, new)
        return c
    nodes = [(i, c["nodes"][i]) for i in reach]

    def of(op, pred=lambda nd: True):
        return [(i, nd) for i, nd in nodes if nd["op"] == op and pred(nd)]

    if kind == "jointype":
        js = of("natural_join", lambda nd: nd["jointype"].lower() != "cross")
        if not js:
            return None
        i, nd = pick(js)
        nd["jointype"] = pick([j for j in ("inner", "left", "right", "full") if j != nd["jointype"].lower()])
        return c
    if kind == "join_on":
        js = of("natural_join", lambda nd: len(nd["on"]) >= 1)
        if not js:
            return None
        i, nd = pick(js)
        if len(nd["on"]) >= 2:
            how = pick(["drop", "reverse", "repair"])
            if how == "drop":
                nd["on"] = nd["on"][:-1]
            elif how == "reverse":
                nd["on"] = list(reversed(nd["on"]))
            else:  # same left keys, same right keys, paired the other way round
                (a1, b1), (a2, b2) = nd["on"][0], nd["on"][1]
                sb = sch[nd["b"]]
                if sb.cols[b1]["type"] != sb.cols[b2]["type"]:
                    nd["on"] = list(reversed(nd["on"]))
                else:
                    nd["on"] = [[a1, b2], [a2, b1]] + nd["on"][2:]
            return c
        sa, sb = sch[nd["a"]], sch[nd["b"]]
        a0, b0 = nd["on"][0]
        alts = [n for n in sa.names() if n in sb.cols and n != a0 and n != b0 and sa.cols[n]["type"] == sb.cols[n]["type"] and sa.cols[n]["type"] != "bool" and not sa.cols[n]["zn"] and not sb.cols[n]["zn"]]
        if not alts:
            return None
        k = pick(alts)
        if pick([True, False]):
            # a second key pair added to BOTH members, listed in the two possible orders
            p2 = spec.clone(c)
            p2["nodes"][i]["on"] = [[a0, b0], [k, k]]
            nd["on"] = [[k, k], [a0, b0]]
            c["_pair_p"] = p2
            return c
        nd["on"] = [[k, k]]
        return c
    if kind == "reverse":
        cand = of("order_rows", lambda nd: nd["cols"]) + of("extend", lambda nd: nd.get("order_by"))
        if not cand:
            return None
        i, nd = pick(cand)
        cols = nd["cols"] if nd["op"] == "order_rows" else nd["order_by"]
        k = pick(cols)
        rev = list(nd.get("reverse") or [])
        nd["reverse"] = [x for x in rev if x != k] if k in rev else rev + [k]
        return c
    if kind == "limit":
        cand = of("order_rows", lambda nd: nd.get("limit") is not None)
        if not cand:
            return None
        i, nd = pick(cand)
        nd["limit"] = nd["limit"] + 1
        return c
    if kind == "partition_by":
        cand = of("extend", lambda nd: isinstance(nd.get("partition_by"), list) and nd["partition_by"])
        if not cand:
            return None
        i, nd = pick(cand)
        if len(nd["partition_by"]) >= 2:
            nd["partition_by"] = nd["partition_by"][:-1] if pick([True, False]) else list(reversed(nd["partition_by"]))
        else:
            nd["partition_by"] = 1
        return c
    if kind == "window_flag":
        # partition_by=1 (window over the whole table) <-> no window at all, everything else unchanged; for operators
        # that do not imply a window by themselves (_size(), _count()) the flag is the only difference
        cand = of("extend", lambda nd: nd.get("partition_by") == 1 and not nd.get("order_by"))
        if cand and pick([True, False]):
            i, nd = pick(cand)
            nd.pop("partition_by")
            return c
        # anchor: a node that is NOT an extend (the builder merges consecutive plain extends, which would make the two
        # members differ in more than the flag)
        anchors = [j for j in spec.reachable(c) if c["nodes"][j]["op"] != "extend"]
        if not anchors:
            return None
        i = pick(anchors)
        free = [n for n in ("n", "c", "b", "k", "a") if n not in sch[i].cols]
        if not free:
            return None
        # a fresh pair built here: p gets `_size()` as a plain extend step, q the same with partition_by=1
        new = {"op": "extend", "src": i, "ops": [[free[0], ["call", "_size", []]]]}
        c["nodes"].append(new)
        c["root"] = len(c["nodes"]) - 1
        c["_window_flag_pair"] = True
        return c
    if kind == "order_by":
        cand = of("extend", lambda nd: len(nd.get("order_by") or []) >= 2)
        if not cand:
            return None
        i, nd = pick(cand)
        nd["order_by"] = list(reversed(nd["order_by"]))
        return c
    if kind in ("concat_id", "concat_label"):
        cand = of("concat_rows", lambda nd: nd.get("id_column") is not None)
        if not cand:
            return None
        i, nd = pick(cand)
        if kind == "concat_id":
            used = set(sch[i].names())
            alt = [n for n in schema.POOLS["str"] + ["src_tag"] if n not in used]
            if not alt:
                return None
            nd["id_column"] = pick(alt)
        else:
            which = pick(["a_name", "b_name"])
            nd[which] = nd[which] + "_x"
        return c
    if kind in ("record_cell", "record_key"):
        cand = of("convert_records")
        if not cand:
            return None
        i, nd = pick(cand)
        rs = nd["record_map"].get("blocks_out") or nd["record_map"].get("blocks_in")
        ct = rs["control_table"]
        if kind == "record_cell":
            # swap the value-column cells of two rows (same set of source columns, different layout)
            if len(ct["rows"]) < 2:
                return None
            vi = [j for j, cn in enumerate(ct["cols"]) if cn not in rs["control_table_keys"]][0]
            ct["rows"][0][vi], ct["rows"][1][vi] = ct["rows"][1][vi], ct["rows"][0][vi]
        else:
            ki = ct["cols"].index(rs["control_table_keys"][0])
            ct["rows"][0][ki] = str(ct["rows"][0][ki]) + "_k"
        return c
    if kind == "select_order":
        cand = of("select_columns", lambda nd: len(nd["cols"]) >= 2)
        if not cand:
            return None
        i, nd = pick(cand)
        nd["cols"] = list(reversed(nd["cols"]))
        return c
    if kind == "group_by_order":
        cand = of("project", lambda nd: len(nd.get("group_by") or []) >= 2)
        if not cand:
            return None
        i, nd = pick(cand)
        nd["group_by"] = list(reversed(nd["group_by"]))
        return c
    if kind == "order_cols_order":
        cand = of("order_rows", lambda nd: len(nd["cols"]) >= 2)
        if not cand:
            return None
        i, nd = pick(cand)
        nd["cols"] = list(reversed(nd["cols"]))
        return c
    if kind == "table_columns":
        tn = pick(spec.used_tables(c))
        t = c["tables"][tn]
        t["cols"] = t["cols"] + [["extra_col", "int", False]]
        t["rows"] = [r + [9] for r in t["rows"]]
        return c
    if kind == "drop_list":
        cand = of("drop_columns")
        if not cand:
            return None
        i, nd = pick(cand)
        rest = [n for n in sch[nd["src"]].names() if n not in nd["cols"]]
        if len(rest) < 2:
            return None
        nd["cols"] = nd["cols"] + [pick(rest)]
        return c
    if kind == "rename_target":
        cand = of("rename_columns") + of("map_columns", lambda nd: any(v is not None for _, v in nd["mapping"]))
        if not cand:
            return None
        i, nd = pick(cand)
        used = set(sch[i].names()) | set(sch[nd["src"]].names())
        if nd["op"] == "rename_columns":
            nd["mapping"][0][0] = "renamed_" + nd["mapping"][0][0]
        else:
            for m in nd["mapping"]:
                if m[1] is not None:
                    m[1] = "renamed_" + m[1]
                    break
        return c
    if kind == "extend_target":
        cand = of("extend") + of("project", lambda nd: nd["ops"])
        if not cand:
            return None
        i, nd = pick(cand)
        nd["ops"][0][0] = "tgt_" + nd["ops"][0][0]
        return c
    raise ValueError(kind)


def dialect_sql(ops):
    import data_algebra.BigQuery
    import data_algebra.MySQL
    import data_algebra.PostgreSQL
    import data_algebra.SparkSQL
    import data_algebra.SQLite

    out = {}
    for name, model in (
        ("sqlite", data_algebra.SQLite.SQLiteModel()),
        ("postgresql", data_algebra.PostgreSQL.PostgreSQLModel()),
        ("bigquery", data_algebra.BigQuery.BigQueryModel()),
        ("spark", data_algebra.SparkSQL.SparkSQLModel()),
        ("mysql", data_algebra.MySQL.MySQLModel()),
    ):
        with warnings.catch_warnings():
            warnings.simplefilter("ignore")
            try:
                out[name] = model.to_sql(ops)
            except Exception as e:
                out[name] = f"<raises {type(e).__name__}>"
    return out


def data_variants(case):
    """The case data and two perturbed copies (numeric cells shifted, rows reversed)."""
    out = [case["tables"]]
    for k in (1, 2):
        t2 = copy.deepcopy(case["tables"])
        for tn, t in t2.items():
            for r in t["rows"]:
                for j, ent in enumerate(t["cols"]):
                    if ent[0] != "id" and ent[1] in ("int", "float") and r[j] is not None:
                        r[j] = r[j] + k * (1 if ent[1] == "int" else 0.5)
            if k == 2:
                t["rows"].reverse()
        out.append(t2)
    return out


def check(pair):
    info = {}
    p_case, q_case = pair["p"], pair["q"]
    try:
        p = spec.build(p_case)
        p2 = spec.build(p_case)
    except Exception as e:
        info["builder_rejected"] = str(e)
        return None, info
    if not (p == p2) or (p != p2):
        return Failure("a pipeline does not compare equal to an independent rebuild of itself (reflexivity)", {"kind": "reflexivity"}), info
    try:
        q = spec.build(q_case)
    except Exception as e:
        info["mutant_rejected"] = f"{type(e).__name__}"
        return None, info
    eq_pq = p == q
    eq_qp = q == p
    ne_pq = p != q
    if eq_pq != eq_qp or ne_pq == eq_pq:
        return (
            Failure(
                f"equality is not symmetric/consistent: p==q is {eq_pq}, q==p is {eq_qp}, p!=q is {ne_pq} (mutation {pair['mutation']})",
                {"kind": "symmetry", "mutation": pair["mutation"]},
            ),
            info,
        )
    info["equal"] = bool(eq_pq)
    info["specs_differ"] = pair["mutation"] != "none"
    if not eq_pq:
        return None, info
    if pair["mutation"] == "none":
        return None, info
    # equal pipelines must behave identically
    sp, sq = dialect_sql(p), dialect_sql(q)
    for d in sp:
        if sp[d] != sq[d]:
            return (
                Failure(
                    f"pipelines compare equal although they differ ({pair['mutation']}) and their {d} SQL differs",
                    {"kind": "equal_but_sql_differs", "mutation": pair["mutation"]},
                    {"p": p.to_python(pretty=False), "q": q.to_python(pretty=False)},
                ),
                info,
            )
    for tables in data_variants(q_case):
        pc = dict(p_case, tables={tn: {**t, "cols": [e for e in t["cols"] if e[0] in {x[0] for x in p_case["tables"][tn]["cols"]}],
                                       "rows": [[v for v, e in zip(r, t["cols"]) if e[0] in {x[0] for x in p_case["tables"][tn]["cols"]}] for r in t["rows"]]}
                                  for tn, t in tables.items() if tn in p_case["tables"]})
        qc = dict(q_case, tables=tables)
        try:
            rp = engines.run_pandas(p, spec.pandas_tables(pc, spec.used_tables(pc)))
            rq = engines.run_pandas(q, spec.pandas_tables(qc, spec.used_tables(qc)))
        except engines.EngineError as e:
            info["eval_raised"] = True
            continue
        dd = cmp.compare(rp, rq, ordered_by=c01.final_order_cols(p_case))
        if dd is not None:
            return (
                Failure(
                    f"pipelines compare equal although they differ ({pair['mutation']}) and their Pandas results differ: {dd}",
                    {"kind": "equal_but_result_differs", "mutation": pair["mutation"]},
                    {"p": p.to_python(pretty=False), "q": q.to_python(pretty=False)},
                ),
                info,
            )
    info["equal_pair_verified"] = True
    return None, info


def replay(check_name, pair):
    f, _ = check(pair)
    return f


@st.composite
def pairs(draw, closed=()):
    cfg = dict(BASE_CFG)
    cfg["closed"] = set(closed)
    if draw(st.sampled_from(range(9))) in (2, 5, 7):  # (sampled_from is near uniform; integers() favours 0)
        from . import c12  # programs with is_in lists / mapv dicts (printing-sensitive enrichment)

        p = c12.draw_case(draw, closed)
        kinds = ["collection"] + list(draw(st.permutations(MUTATIONS)))
    else:
        p = gen.draw_program(draw, cfg)
        kinds = draw(st.permutations(MUTATIONS))
    pick = lambda xs: draw(st.sampled_from(list(xs)))
    if draw(st.sampled_from(range(10))) == 7:
        return {"p": p, "q": spec.clone(p), "mutation": "none"}  # equal pairs on purpose (reflexivity, same behaviour)
    for kind in [k for k in kinds if k != "none"]:
        try:
            q = mutate(p, kind, pick)
        except (KeyError, IndexError, schema.TypeErr):
            q = None
        if q is not None:
            if "_pair_p" in q:
                return {"p": q.pop("_pair_p"), "q": q, "mutation": kind}
            if q.pop("_window_flag_pair", None):
                # both members are new: ... .extend({n: _size()}) without a window / with partition_by=1
                p2 = spec.clone(q)
                q["nodes"][q["root"]]["partition_by"] = 1
                return {"p": p2, "q": q, "mutation": kind}
            return {"p": p, "q": q, "mutation": kind}
    return {"p": p, "q": spec.clone(p), "mutation": "none"}


@st.composite
def record_pairs(draw):
    """p = table.convert_records(unpivot or pivot map); q = p with one record-map mutation."""
    pick = lambda xs: draw(st.sampled_from(list(xs)))
    vcols = ["x", "y", "z"][: pick([2, 3])]
    direction = pick(["unpivot", "pivot"])
    ct = {"cols": ["g", "w"], "rows": [[c.upper(), c] for c in vcols]}
    rs = {"control_table": ct, "record_keys": ["id"], "control_table_keys": ["g"]}
    if direction == "unpivot":
        cols = [["id", "int", False]] + [[c, "float", False] for c in vcols]
        rows = [[i + 1] + [float(i + j) for j in range(len(vcols))] for i in range(3)]
        rm = {"blocks_in": None, "blocks_out": rs, "strict": True}
    else:
        cols = [["id", "int", False], ["g", "str", False], ["w", "float", False]]
        rows = [[i + 1, c.upper(), float(i + j)] for i in range(2) for j, c in enumerate(vcols)]
        rm = {"blocks_in": rs, "blocks_out": None, "strict": True}
    p = {
        "expr_mode": "text", "root": 1,
        "tables": {"t1": {"cols": cols, "rows": rows, "keys": [["id"]] if direction == "unpivot" else []}},
        "nodes": [{"op": "table", "name": "t1"}, {"op": "convert_records", "src": 0, "record_map": rm}],
    }
    kind = pick(["record_cell", "record_key", "none"])
    q = mutate(p, kind, pick)
    return {"p": p, "q": q if q is not None else spec.clone(p), "mutation": kind if q is not None else "none"}


def run(ctx):
    ev = ctx.ev
    ev.rule = (
        f"pairs (p, q): p a random operator DAG, q = p with one of {len(MUTATIONS) - 1} kinds of single-point spec mutation (or an independent "
        "rebuild); reflexivity, symmetry and consistency of == / != are checked on every pair; every pair that compares equal although the specs "
        "differ is checked for identical SQL in 5 dialects and identical Pandas results on 3 data sets; non-trivial = the two specs differ and "
        "both build; distinct = SHA-1 of the pair"
    )
    ev.assumptions = [
        "only the forward direction is required: equal => same behaviour",
        "a mutant the builder rejects is discarded (counted)",
    ]
    ctx.probe_findings(replay)

    def oracle(pair):
        f, info = check(pair)
        nt = pair["mutation"] != "none" and "mutant_rejected" not in info and "builder_rejected" not in info
        fs = ["mut_" + pair["mutation"]]
        if info.get("equal") and pair["mutation"] != "none":
            fs.append("differing_specs_compare_equal")
        ev.note(pair, nt, fs, sample={"mutation": pair["mutation"], "p": c01._sample(pair["p"]), "q": c01._sample(pair["q"])})
        for k in ("builder_rejected", "mutant_rejected", "eval_raised"):
            if k in info:
                ev.count(k)
        return f

    ctx.campaign("main", pairs(ctx.closed), oracle, max_examples=ctx.n(1200, 160000))
    ctx.campaign("record_maps", record_pairs(), oracle, max_examples=ctx.n(100, 8000))
