"""C21 — solution helpers (data_algebra.solutions) compute what their documentation promises.

Four stateless campaigns, one per helper.  Every case is plain data (tables as
{"cols": [[name, type], ...], "rows": [[...], ...]} plus the helper's arguments); the oracle builds
Pandas frames, builds the helper's pipeline, evaluates it on Pandas (ops.eval) and on SQLite (the
library's own DBHandle via vp.engines.SQLiteEngine) and compares each result, as a multiset of rows with
float tolerance and null == NaN, with an independent plain-Python reference:

  rank       rank_to_average: rank of a row = mean 1-based position of its tie group (equal order_by
             tuple) inside its partition  = #smaller + (#equal + 1) / 2;  scipy.stats.rankdata(
             method="average") per partition is a second opinion on the reference itself.
  locf       last_observed_carried_forward: walk each partition in order_by order, replace a missing
             value by the latest earlier non-missing one (leading missing values stay missing).
  replicate  replicate_rows_query: each row `count` times with seq 0..count-1, nothing else.
  mapcols    def_multi_column_map: row keys + every listed column looked up in a dict built from the
             mapping table (missing -> null, or coalesce_value when given), optionally renamed.

Input domains follow the docstrings (see ev.assumptions in run()).  Engine switches: a flag
"<helper>_<engine>" (e.g. "locf_pandas") in ctx.closed turns that evaluation off; the flag
"replicate_zero_count" stops the replicate generator from drawing the count 0.
"""

from __future__ import annotations

from hypothesis import strategies as st

from .. import cmp, engines, spec
from ..common import Failure, HarnessError

PID = "C21"
SHARDABLE = True

# Regions the docstrings admit but where the unchanged tree raises (reported as finding candidates).  They are
# generated unless the flag of a still-open finding closes them ("replicate_zero_count",
# "mapcols_single_column"); set a constant to False to take the region out of the domain for good.
DOMAIN_ZERO_COUNT = True  # replicate_rows_query: "count column, should be non-negative integers"
DOMAIN_SINGLE_COLUMN = True  # def_multi_column_map: cols_to_map asserted non-empty, so one column is admitted

HELPERS = ("rank", "locf", "replicate", "mapcols")
ENGINES = ("pandas", "sqlite")

# flags of still-open findings (set by run(); replay() always evaluates everything)
_CLOSED: set = set()
_ENGINE = {"obj": None, "uses": 0}


# ----------------------------------------------------------------------------------------------
# evaluation


def _sqlite():
    if _ENGINE["obj"] is None or _ENGINE["uses"] >= 400:
        _drop_sqlite()
        _ENGINE["obj"] = engines.SQLiteEngine()
        _ENGINE["uses"] = 0
    _ENGINE["uses"] += 1
    return _ENGINE["obj"]


def _drop_sqlite():
    if _ENGINE["obj"] is not None:
        _ENGINE["obj"].close()
    _ENGINE["obj"] = None


def _norm_expect(cols, rows):
    return list(cols), [[cmp.norm_cell(v) for v in r] for r in rows]


def _frame(tbl):
    return spec.pandas_frame(tbl)


def _evaluate(helper, make_ops, tables, expect, sig_extra=None):
    """Build the pipeline, run it on each engine that is not switched off, compare with `expect`
    (normalised (cols, rows)).  Returns Failure | None."""
    sig_extra = dict(sig_extra or {})
    try:
        ops = make_ops()
    except Exception as e:  # the helper refused documented-valid arguments
        return Failure(
            f"{helper}: building the pipeline raised {type(e).__name__}: {e}",
            dict(sig_extra, helper=helper, kind="raised", engine="build", exc=type(e).__name__),
        )
    got = {}
    for eng in ENGINES:
        if f"{helper}_{eng}" in _CLOSED:
            continue
        try:
            if eng == "pandas":
                got[eng] = engines.run_pandas(ops, tables)
            else:
                db = _sqlite()
                db.load(tables)
                got[eng] = db.run(ops)
        except engines.EngineError as e:
            if eng == "sqlite":
                _drop_sqlite()
            return Failure(
                f"{helper}: {eng} raised on a documented-valid input: {e}",
                dict(sig_extra, helper=helper, kind="raised", engine=eng, bucket=e.bucket()),
                {"expected": cmp.brief(expect, 40)},
            )
    for eng in ENGINES:
        if eng not in got:
            continue
        d = cmp.compare(expect, got[eng])
        if d is not None:
            return Failure(
                f"{helper}: {eng} result differs from the documented result: {d}",
                dict(sig_extra, helper=helper, kind="mismatch", engine=eng),
                {
                    "expected": cmp.brief(expect, 40),
                    "pandas": cmp.brief(got["pandas"], 40) if "pandas" in got else None,
                    "sqlite": cmp.brief(got["sqlite"], 40) if "sqlite" in got else None,
                },
            )
    return None


def _col_index(tbl):
    return {ent[0]: i for i, ent in enumerate(tbl["cols"])}


def _require(cond, what):
    if not cond:
        raise HarnessError(f"C21 case outside the generated domain: {what}")


def _no_nulls(tbl, names, what):
    ix = _col_index(tbl)
    for r in tbl["rows"]:
        for n in names:
            _require(r[ix[n]] is not None, f"null in {what} column {n!r}")


# ----------------------------------------------------------------------------------------------
# rank_to_average


def _rank_reference(tbl, partition_by, order_by):
    ix = _col_index(tbl)
    rows = tbl["rows"]
    ranks = []
    for r in rows:
        pk = [r[ix[c]] for c in partition_by]
        ok = [r[ix[c]] for c in order_by]
        less = 0
        equal = 0
        for s in rows:
            if [s[ix[c]] for c in partition_by] != pk:
                continue
            sk = [s[ix[c]] for c in order_by]
            if sk < ok:
                less += 1
            elif sk == ok:
                equal += 1
        # positions less+1 .. less+equal, their mean:
        ranks.append(sum(range(less + 1, less + equal + 1)) / float(equal))
    return ranks


def _rank_scipy(tbl, partition_by, order_by):
    try:
        from scipy.stats import rankdata
    except Exception:
        return None
    ix = _col_index(tbl)
    rows = tbl["rows"]
    out = [None] * len(rows)
    groups = {}
    for i, r in enumerate(rows):
        groups.setdefault(repr([r[ix[c]] for c in partition_by]), []).append(i)
    for idxs in groups.values():
        keys = [tuple(rows[i][ix[c]] for c in order_by) for i in idxs]
        codes = {k: j for j, k in enumerate(sorted(set(keys)))}
        rk = rankdata([codes[k] for k in keys], method="average")
        for i, v in zip(idxs, rk):
            out[i] = float(v)
    return out


def check_rank(case):
    import data_algebra.solutions as sol
    from data_algebra.data_ops import descr

    tbl = case["table"]
    pb, ob, rc = list(case["partition_by"]), list(case["order_by"]), case["rank_col"]
    _require(len(ob) >= 1, "rank needs an order")
    _no_nulls(tbl, pb, "partition")
    _no_nulls(tbl, ob, "order")
    ranks = _rank_reference(tbl, pb, ob)
    second = _rank_scipy(tbl, pb, ob)
    if second is not None and any(abs(a - b) > 1e-9 for a, b in zip(ranks, second)):
        raise HarnessError(f"rank reference and scipy.rankdata disagree: {ranks} vs {second} on {case}")
    expect = _norm_expect(
        [c[0] for c in tbl["cols"]] + [rc], [list(r) + [rk] for r, rk in zip(tbl["rows"], ranks)]
    )
    frame = _frame(tbl)

    def make():
        return sol.rank_to_average(
            descr(d=frame), order_by=ob, partition_by=(pb if pb or case.get("pb_list") else None), rank_column_name=rc
        )

    ties = _tie(tbl, pb, ob)
    feats = [
        "rank",
        f"rank:pcols={len(pb)}",
        f"rank:ocols={len(ob)}",
        "rank:ties" if ties else "rank:no_ties",
    ]
    ix = _col_index(tbl)
    nparts = len({repr([r[ix[c]] for c in pb]) for r in tbl["rows"]})
    if not tbl["rows"]:
        feats.append("rank:empty")
    if nparts >= 2:
        feats.append("rank:multi_partition")
    for c in ob:
        feats.append("rank:order_" + tbl["cols"][ix[c]][1])
    return _evaluate("rank", make, {"d": frame}, expect), ties, feats


def _tie(tbl, pb, ob):
    ix = _col_index(tbl)
    seen = set()
    for r in tbl["rows"]:
        k = repr([[r[ix[c]] for c in pb], [r[ix[c]] for c in ob]])
        if k in seen:
            return True
        seen.add(k)
    return False


# ----------------------------------------------------------------------------------------------
# last_observed_carried_forward


def check_locf(case):
    import data_algebra.solutions as sol
    from data_algebra.data_ops import descr

    tbl = case["table"]
    pb, ob, vc = list(case["partition_by"]), list(case["order_by"]), case["value_col"]
    pred = case.get("predicate", "is_null()")
    _require(len(ob) >= 1, "locf needs an order")
    _require(pred in ("is_null()", "is_bad()"), "predicate")
    _no_nulls(tbl, pb, "partition")
    _no_nulls(tbl, ob, "order")
    _require(not _tie(tbl, pb, ob), "order_by is not a total order inside a partition")
    ix = _col_index(tbl)
    rows = tbl["rows"]
    groups = {}
    for i, r in enumerate(rows):
        groups.setdefault(repr([r[ix[c]] for c in pb]), []).append(i)
    filled = [r[ix[vc]] for r in rows]
    fill_after_value = False
    leading = False
    all_null_part = False
    for idxs in groups.values():
        idxs = sorted(idxs, key=lambda i: [rows[i][ix[c]] for c in ob])
        carry = None
        for i in idxs:
            if filled[i] is None:
                if carry is None:
                    leading = True
                else:
                    fill_after_value = True
                filled[i] = carry
            else:
                carry = filled[i]
        if carry is None:
            all_null_part = True
    out_rows = []
    for r, v in zip(rows, filled):
        r = list(r)
        r[ix[vc]] = v
        out_rows.append(r)
    expect = _norm_expect([c[0] for c in tbl["cols"]], out_rows)
    frame = _frame(tbl)

    def make():
        kw = {}
        if pred != "is_null()":
            kw["selection_predicate"] = pred
        return sol.last_observed_carried_forward(
            descr(d=frame),
            order_by=ob,
            partition_by=(pb if pb or case.get("pb_list") else None),
            value_column_name=vc,
            **kw,
        )

    feats = [
        "locf",
        f"locf:pcols={len(pb)}",
        f"locf:ocols={len(ob)}",
        "locf:value_" + tbl["cols"][ix[vc]][1],
        "locf:" + pred,
    ]
    if fill_after_value:
        feats.append("locf:fill")
    if leading:
        feats.append("locf:leading_null")
    if all_null_part:
        feats.append("locf:all_null_partition")
    if len(groups) >= 2:
        feats.append("locf:multi_partition")
    if not rows:
        feats.append("locf:empty")
    # the same order value in two partitions (the helper's tiebreaker is numbered over the whole table)
    if pb:
        seen = {}
        for r in rows:
            seen.setdefault(repr([r[ix[c]] for c in ob]), set()).add(repr([r[ix[c]] for c in pb]))
        if any(len(v) > 1 for v in seen.values()):
            feats.append("locf:order_value_shared_by_partitions")
    return _evaluate("locf", make, {"d": frame}, expect), fill_after_value, feats


# ----------------------------------------------------------------------------------------------
# replicate_rows_query


def check_replicate(case):
    import data_algebra.solutions as sol
    from data_algebra.data_ops import descr

    tbl = case["table"]
    cc, sc, jt, mx = case["count_col"], case["seq_col"], case["join_temp"], case["max_count"]
    ix = _col_index(tbl)
    counts = [r[ix[cc]] for r in tbl["rows"]]
    _require(all(isinstance(c, int) and 0 <= c <= mx for c in counts), "counts must be ints in 0..max_count")
    out_rows = []
    for r in tbl["rows"]:
        for i in range(r[ix[cc]]):
            out_rows.append(list(r) + [i])
    expect = _norm_expect([c[0] for c in tbl["cols"]] + [sc], out_rows)
    frame = _frame(tbl)
    tables = {"d": frame}

    def make():
        ops, count_frame = sol.replicate_rows_query(
            descr(d=frame), count_column_name=cc, seq_column_name=sc, join_temp_name=jt, max_count=mx
        )
        tables[jt] = count_frame
        return ops

    zero = any(c == 0 for c in counts)
    pow2 = any(c in (2, 4, 8) for c in counts)
    feats = ["replicate", f"replicate:max_count={mx}"]
    if pow2:
        feats.append("replicate:count_power_of_two")
    if any(c in (3, 5, 9) for c in counts):
        feats.append("replicate:count_power_of_two_plus_one")
    if any(c == mx for c in counts):
        feats.append("replicate:count_eq_max_count")
    if zero:
        feats.append("replicate:zero_count")
    if not tbl["rows"]:
        feats.append("replicate:empty")
    f = _evaluate("replicate", make, tables, expect, {"zero_count": zero})
    return f, pow2, feats


# ----------------------------------------------------------------------------------------------
# def_multi_column_map


def check_mapcols(case):
    import data_algebra.solutions as sol
    from data_algebra.data_ops import descr

    d, m = case["d"], case["m"]
    row_keys, cols = list(case["row_keys"]), list(case["cols_to_map"])
    cn, cv, mv = case["names"]
    coalesce, back = case.get("coalesce"), case.get("map_back")
    dix, mix = _col_index(d), _col_index(m)
    _no_nulls(d, row_keys, "row key")
    _no_nulls(d, cols, "mapped (join key)")
    _no_nulls(m, [cn, cv], "mapping key")
    _require(len({repr([r[dix[c]] for c in row_keys]) for r in d["rows"]}) == len(d["rows"]), "d keyed by row_keys")
    _require(
        len({repr([r[mix[cn]], r[mix[cv]]]) for r in m["rows"]}) == len(m["rows"]), "mapping table uniquely keyed"
    )
    lookup = {}
    for r in m["rows"]:
        lookup[(r[mix[cn]], r[mix[cv]])] = r[mix[mv]]
    unmapped = False
    null_mapped = False
    out_rows = []
    for r in d["rows"]:
        o = [r[dix[c]] for c in row_keys]
        for c in cols:
            k = (c, r[dix[c]])
            if k not in lookup:
                unmapped = True
            v = lookup.get(k)
            if k in lookup and v is None:
                null_mapped = True
            if v is None and coalesce is not None:
                v = coalesce
            o.append(v)
        out_rows.append(o)
    expect = _norm_expect(row_keys + (list(back) if back is not None else cols), out_rows)
    fd, fm = _frame(d), _frame(m)

    def make():
        kw = {}
        if [cn, cv, mv] != ["column_name", "column_value", "mapped_value"]:
            kw = {"col_name_key": cn, "col_value_key": cv, "mapped_value_key": mv}
        return sol.def_multi_column_map(
            descr(d=fd),
            mapping_table=descr(m=fm),
            row_keys=row_keys,
            cols_to_map=cols,
            coalesce_value=coalesce,
            cols_to_map_back=back,
            **kw,
        )

    feats = [
        "mapcols",
        f"mapcols:ncols={len(cols)}",
        f"mapcols:nkeys={len(row_keys)}",
        "mapcols:coalesce" if coalesce is not None else "mapcols:no_coalesce",
        "mapcols:map_back" if back is not None else "mapcols:same_names",
        "mapcols:value_" + d["cols"][dix[cols[0]]][1],
        "mapcols:mapped_" + m["cols"][mix[mv]][1],
    ]
    if unmapped:
        feats.append("mapcols:unmapped")
    if null_mapped:
        feats.append("mapcols:null_mapped_value")
    if not d["rows"]:
        feats.append("mapcols:empty_d")
    if not m["rows"]:
        feats.append("mapcols:empty_mapping")
    if len(m["cols"]) > 3 or len(d["cols"]) > len(row_keys) + len(cols):
        feats.append("mapcols:extra_columns")
    return _evaluate("mapcols", make, {"d": fd, "m": fm}, expect, {"ncols": len(cols)}), unmapped, feats


CHECKS = {"rank": check_rank, "locf": check_locf, "replicate": check_replicate, "mapcols": check_mapcols}


def replay(check, case):
    saved = set(_CLOSED)
    _CLOSED.clear()  # a replay always evaluates both engines
    try:
        return CHECKS[check](case)[0]
    finally:
        _CLOSED.update(saved)


# ----------------------------------------------------------------------------------------------
# strategies (plain data only)

STR_POOL = ["a", "b", "c", "d"]
INT_POOL = [-1, 0, 1, 2, 3]
FLOAT_POOL = [-1.5, 0.0, 0.5, 1.0, 2.0, 2.5]
VAL_FLOATS = [-2.5, 0.0, 1.0, 3.25, 1e6]
VAL_STRS = ["x", "y", "zz", ""]
POOLS = {"str": STR_POOL, "int": INT_POOL, "float": FLOAT_POOL}


def _key_cols(draw, prefix, lo, hi, kinds=("str", "int", "float")):
    n = draw(st.integers(lo, hi))
    return [[f"{prefix}{i + 1}", draw(st.sampled_from(list(kinds)))] for i in range(n)]


@st.composite
def rank_cases(draw):
    pcols = _key_cols(draw, "g", 0, 2, kinds=("str", "int"))
    ocols = _key_cols(draw, "o", 1, 2)
    n = draw(st.integers(0, 9))
    pools = [POOLS[t][: draw(st.integers(1, 3))] for _, t in pcols] + [
        POOLS[t][: draw(st.integers(2, len(POOLS[t])))] for _, t in ocols
    ]
    rid = draw(st.permutations(list(range(n))))
    payload = draw(st.booleans())
    rows = []
    for i in range(n):
        r = [draw(st.sampled_from(p)) for p in pools] + [rid[i]]
        if payload:
            r.append(draw(st.sampled_from([None, 0.5, 7.0])))
        rows.append(r)
    cols = pcols + ocols + [["rid", "int"]] + ([["x", "float"]] if payload else [])
    perm = draw(st.permutations(list(range(len(cols)))))
    cols2 = [cols[j] for j in perm]
    rows2 = [[r[j] for j in perm] for r in rows]
    return {
        "table": {"cols": cols2, "rows": rows2},
        "partition_by": [c[0] for c in pcols],
        "order_by": [c[0] for c in ocols],
        "rank_col": draw(st.sampled_from(["r", "rank_avg"])),
        "pb_list": draw(st.booleans()),
    }


@st.composite
def locf_cases(draw):
    pcols = _key_cols(draw, "g", 0, 2, kinds=("str", "int"))
    ocols = _key_cols(draw, "o", 1, 2)
    use_rid = draw(st.booleans())
    vkind = draw(st.sampled_from(["float", "float", "int", "str"]))
    pred = "is_bad()" if vkind == "float" and draw(st.booleans()) else "is_null()"
    vpool = {"float": VAL_FLOATS, "int": [0, 1, 7, -3], "str": VAL_STRS}[vkind]
    n = draw(st.integers(0, 10))
    ppools = [POOLS[t][: draw(st.integers(1, 3))] for _, t in pcols]
    opools = [POOLS[t][: draw(st.integers(2, 4))] for _, t in ocols]
    rid = draw(st.permutations(list(range(n))))
    rows = []
    seen = set()
    for i in range(n):
        pk = [draw(st.sampled_from(p)) for p in ppools]
        ok = [draw(st.sampled_from(p)) for p in opools]
        v = draw(st.one_of(st.none(), st.sampled_from(vpool)))
        if not use_rid:
            k = repr([pk, ok])
            if k in seen:
                continue  # keep order_by a total order inside each partition
            seen.add(k)
        rows.append(pk + ok + [rid[i], v])
    cols = pcols + ocols + [["rid", "int"], ["v", vkind]]
    if draw(st.sampled_from([True, True, False])):
        # a bystander column with its own missing cells (often in the very rows whose value is missing): the helper
        # fills ONE column; everything else must come back untouched
        bkind = draw(st.sampled_from(["float", "str"]))
        bpool = {"float": VAL_FLOATS, "str": VAL_STRS}[bkind]
        for r in rows:
            if r[-1] is None and draw(st.sampled_from([True, True, False])):
                r.append(None)
            else:
                r.append(draw(st.one_of(st.none(), st.sampled_from(bpool), st.sampled_from(bpool))))
        cols = cols + [["w", bkind]]
    perm = draw(st.permutations(list(range(len(cols)))))
    return {
        "table": {"cols": [cols[j] for j in perm], "rows": [[r[j] for j in perm] for r in rows]},
        "partition_by": [c[0] for c in pcols],
        "order_by": [c[0] for c in ocols] + (["rid"] if use_rid else []),
        "value_col": "v",
        "predicate": pred,
        "pb_list": draw(st.booleans()),
    }


@st.composite
def replicate_cases(draw, allow_zero=True):
    mx = draw(st.sampled_from([1, 2, 3, 4, 5, 8, 9]))
    n = draw(st.integers(0, 5))
    lo = 0 if allow_zero else 1
    # counts: mostly interesting values (boundaries), always inside lo..max_count
    interesting = [c for c in (0, 1, 2, 3, 4, 5, 8, 9, mx) if lo <= c <= mx]
    cnt = st.one_of(st.sampled_from(interesting), st.integers(lo, mx))
    payload = draw(st.booleans())
    rows = []
    for _ in range(n):
        r = [draw(st.sampled_from(STR_POOL + [None])), draw(cnt)]
        if payload:
            r.append(draw(st.sampled_from([None, 0.5, -2.0])))
        rows.append(r)
    cc = draw(st.sampled_from(["n", "cnt"]))
    cols = [["key", "str"], [cc, "int"]] + ([["x", "float"]] if payload else [])
    perm = draw(st.permutations(list(range(len(cols)))))
    return {
        "table": {"cols": [cols[j] for j in perm], "rows": [[r[j] for j in perm] for r in rows]},
        "count_col": cc,
        "seq_col": draw(st.sampled_from(["i", "seq"])),
        "join_temp": draw(st.sampled_from(["rt", "rep_tmp"])),
        "max_count": mx,
    }


@st.composite
def mapcols_cases(draw, allow_single=True):
    ncols = draw(st.integers(1 if allow_single else 2, 3))
    cols = ["va", "vb", "vc"][:ncols]
    vkind = draw(st.sampled_from(["str", "str", "int"]))
    vpool = {"str": ["a", "b", "c", "d", "e"], "int": [0, 1, 2, 3, 4]}[vkind]
    two_keys = draw(st.booleans())
    n = draw(st.integers(0, 6))
    if two_keys:
        row_keys = ["k1", "k2"]
        pairs = draw(st.lists(st.tuples(st.sampled_from(["p", "q", "r"]), st.integers(0, 2)), min_size=n, max_size=n, unique=True))
        keyvals = [list(p) for p in pairs]
        kcols = [["k1", "str"], ["k2", "int"]]
    else:
        row_keys = ["id"]
        keyvals = [[i] for i in draw(st.permutations(list(range(1, n + 1))))]
        kcols = [["id", "int"]]
    extra_d = draw(st.booleans())
    drows = []
    for i in range(n):
        r = keyvals[i] + [draw(st.sampled_from(vpool)) for _ in cols]
        if extra_d:
            r.append(draw(st.sampled_from([None, 1.5])))
        drows.append(r)
    dcols = kcols + [[c, vkind] for c in cols] + ([["extra", "float"]] if extra_d else [])
    perm = draw(st.permutations(list(range(len(dcols)))))
    d = {"cols": [dcols[j] for j in perm], "rows": [[r[j] for j in perm] for r in drows]}

    coalesce = draw(st.sampled_from([None, None, 0.0, -1, 7.5]))
    mkind = "float" if coalesce is not None else draw(st.sampled_from(["float", "float", "str"]))
    mpool = [None, 1.0, 2.0, -3.5, 10.0] if mkind == "float" else [None, "A", "B", "C"]
    custom = draw(st.booleans())
    names = ["cn", "cv", "mv"] if custom else ["column_name", "column_value", "mapped_value"]
    keys = draw(
        st.lists(
            st.tuples(st.sampled_from(cols + ["zz"]), st.sampled_from(vpool[:4])),
            min_size=draw(st.sampled_from([0, 1, 3, 5])),
            max_size=10,
            unique=True,
        )
    )
    extra_m = draw(st.booleans())
    mrows = []
    for c, v in keys:
        r = [c, v, draw(st.sampled_from(mpool))]
        if extra_m:
            r.append(draw(st.sampled_from([None, 3.0])))
        mrows.append(r)
    mcols = [[names[0], "str"], [names[1], vkind], [names[2], mkind]] + ([["note", "float"]] if extra_m else [])
    mperm = draw(st.permutations(list(range(len(mcols)))))
    m = {"cols": [mcols[j] for j in mperm], "rows": [[r[j] for j in mperm] for r in mrows]}
    back = [c + "_mapped" for c in cols] if draw(st.booleans()) else None
    return {
        "d": d,
        "m": m,
        "row_keys": row_keys,
        "cols_to_map": cols,
        "names": names,
        "coalesce": coalesce,
        "map_back": back,
    }


# ----------------------------------------------------------------------------------------------


def run(ctx):
    ev = ctx.ev
    ev.rule = (
        "four Hypothesis campaigns of plain-data cases, one per helper (rank_to_average, "
        "last_observed_carried_forward, replicate_rows_query, def_multi_column_map): small typed tables "
        "(0-10 rows, key values from 1-5 value pools so groups/ties repeat, shuffled physical row and column "
        "order, unique row id + nullable payload columns) plus the helper's arguments; each pipeline is evaluated "
        "on Pandas and on SQLite and both results are compared as row multisets (float tolerance, null == NaN) with "
        "a plain-Python reference. non-trivial: rank = a tie group of >= 2 rows inside a partition; locf = a missing "
        "value preceded by a non-missing one in its partition; replicate = a count in {2,4,8}; mapcols = a value of "
        "a mapped column absent from the mapping table. distinct = SHA-1 of the case."
    )
    ev.assumptions = [
        "partition and order columns never hold nulls: the docstrings say nothing about them, null order values "
        "sort first on SQLite and last on Pandas (engines disagree), and locf joins on the partition columns "
        "(open finding F02: Pandas matches null join keys)",
        "last_observed_carried_forward: order_by is a total order inside every partition (unique order tuples, or "
        "a unique row id appended to order_by); with tied order values 'last observed' is undefined",
        "last_observed_carried_forward: selection_predicate is the default is_null() or is_bad() on finite floats; "
        "values are floats, ints or strs",
        "replicate_rows_query: counts are ints in 0..max_count (docstring: 'non-negative integers', max_count an "
        "upper bound); 0 is dropped from the generator when flag replicate_zero_count is closed; max_count in "
        "{1,2,3,4,5,8,9}",
        "def_multi_column_map: d uniquely keyed by non-null row_keys, mapping table uniquely keyed by (name, value) "
        "(both required by the docstring); all mapped columns share one type (str or int) and hold no nulls (they "
        "become join keys, F02); coalesce_value is numeric and then mapped values are numeric; result columns = "
        "row_keys + mapped columns",
        "empty tables are treated as valid inputs (expected: empty result with the documented columns)",
        "row order and column order of results are not checked; numeric cells compared as floats with tolerance",
        "trusted: vp.cmp normalisation/comparison, vp.spec.pandas_frame, SQLite 3 as the SQL engine",
    ]
    ev.trusted_base = ["plain-Python references in vp/checks/c21.py", "scipy.stats.rankdata (second opinion for rank)"]
    ctx.probe_findings(replay)
    _CLOSED.clear()
    _CLOSED.update(ctx.closed)
    for h in HELPERS:
        for e in ENGINES:
            if f"{h}_{e}" in _CLOSED:
                ev.inconclusive.append(f"{h} not evaluated on {e}: switched off by open finding flag {h}_{e}")

    allow_zero = DOMAIN_ZERO_COUNT and "replicate_zero_count" not in _CLOSED
    allow_single = DOMAIN_SINGLE_COLUMN and "mapcols_single_column" not in _CLOSED

    def oracle_for(name):
        fn = CHECKS[name]
        off = [e for e in ENGINES if f"{name}_{e}" in _CLOSED]

        def oracle(case):
            f, nontrivial, feats = fn(case)
            if off:
                ev.count("excluded_by_construction", len(off))
            if name == "replicate" and not allow_zero:
                ev.count("excluded_by_construction:replicate_zero_count")
            if name == "mapcols" and not allow_single:
                ev.count("excluded_by_construction:mapcols_single_column")
            ev.note(case, nontrivial, feats)
            return f

        return oracle

    per = ctx.n(250, 30000)
    try:
        ctx.campaign("rank", rank_cases(), oracle_for("rank"), max_examples=per)
        ctx.campaign("locf", locf_cases(), oracle_for("locf"), max_examples=per)
        ctx.campaign("replicate", replicate_cases(allow_zero=allow_zero), oracle_for("replicate"), max_examples=per)
        ctx.campaign("mapcols", mapcols_cases(allow_single=allow_single), oracle_for("mapcols"), max_examples=per)
    finally:
        _drop_sqlite()
