"""C10 — columns not reported as used never influence a pipeline's result (metamorphic).

U(table) = table columns - ops.columns_used()[table].
(1) perturbation: replacing the values of U columns (fresh values of the same type; and all-null) leaves the
    Pandas result and the SQLite result unchanged;
(2) narrowing: the program rebuilt from its spec with table descriptions restricted to the reported columns
    (pure column-list arguments of select/drop/rename/map_columns intersected with what still exists;
    everything that *computes* left untouched) must build, and on inputs restricted to those columns must
    give the same result;
(3) columns_used() is a subset of the declared columns, repeatable, and unchanged by to_sql().
"""

from __future__ import annotations

import copy

from .. import cmp, engines, gen, schema, spec
from ..common import Failure
from . import c01

PID = "C10"

BASE_CFG = {
    "engines": ("pandas", "sqlite"),
    "max_nodes": 7,
    "n_tables": (2, 2),
    "final_order": 0.25,
    "ops": {"select_columns": 3, "drop_columns": 3, "project": 4, "natural_join": 9, "window": 3, "ordered_window": 3},
    # shared interior nodes asked for different column subsets by two consumers; joins on differently named keys
    "shape": "diamond",
    "shape_prob": 0.4,
    "reuse_bias": True,
    "diffname_prob": 0.9,
    "drop_join_key_prob": 0.6,
    "narrowing_tails": True,
}

FRESH = {"int": [7, -9, 11, 5], "float": [9.5, -7.25, 3.75, 8.0], "str": ["zz", "q9", "", "mm"], "bool": [True, False, False, True]}


def perturb(case, unused, mode):
    c = spec.clone(case)
    for tn, cols in unused.items():
        t = c["tables"][tn]
        for j, ent in enumerate(t["cols"]):
            if ent[0] in cols:
                for i, r in enumerate(t["rows"]):
                    if mode == "null" and ent[1] in ("float", "str"):
                        r[j] = None
                    else:
                        r[j] = FRESH[ent[1]][(i + j) % 4]
    return c


def node_columns(case):
    """Output column names per reachable node, from the spec alone."""
    out = {}
    sch = schema.infer(case)
    for i in spec.reachable(case):
        out[i] = sch[i].names()
    return out


def prune_dead(case, concat_pick=0):
    """Independent liveness analysis at spec level: remove assignments whose outputs nothing downstream reads
    (they may mention unreported columns without influencing the result). Exact for this operator set:
    a column is needed iff it is in the final result, read by a live expression, a grouping / partition /
    ordering / join key of a step that stays, or input of a record map."""
    c = spec.clone(case)
    nodes = c["nodes"]
    cols = node_columns(c)
    order = spec.reachable(c)
    need = {i: set() for i in order}
    need[c["root"]] = set(cols[c["root"]])
    for i in reversed(order):  # consumers have larger ids than their sources
        nd = nodes[i]
        op = nd["op"]
        n = need[i]
        if op == "table":
            continue
        if op == "extend":
            live = [[k, e] for k, e in nd["ops"] if k in n]
            nd["ops"] = live
            up = set(n) - {k for k, _ in live}
            for k, e in live:
                up |= spec.expr_cols(e)
            if live:
                pb = nd.get("partition_by")
                up |= set(pb if isinstance(pb, list) else [])
                up |= set(nd.get("order_by") or [])
            need[nd["src"]] |= up & set(cols[nd["src"]])
        elif op == "project":
            live = [[k, e] for k, e in nd["ops"] if k in n]
            gb = list(nd.get("group_by") or [])
            if not live and not gb:
                # only the row count (exactly one row) of this project matters: keep a column-free aggregate
                live = [[nd["ops"][0][0], ["call", "_size", []]]]
            nd["ops"] = live
            up = set(gb)
            for k, e in live:
                up |= spec.expr_cols(e)
            need[nd["src"]] |= up
        elif op == "select_rows":
            need[nd["src"]] |= n | spec.expr_cols(nd["expr"])
        elif op == "select_columns":
            keep = [x for x in nd["cols"] if x in n] or [nd["cols"][0]]
            nd["cols"] = keep
            need[nd["src"]] |= set(keep)
        elif op == "drop_columns":
            need[nd["src"]] |= n
        elif op == "rename_columns":
            mp = {new: old for new, old in nd["mapping"]}
            need[nd["src"]] |= {mp.get(x, x) for x in n}
        elif op == "map_columns":
            mp = {new: old for old, new in nd["mapping"] if new is not None}
            need[nd["src"]] |= {mp.get(x, x) for x in n}
        elif op == "order_rows":
            if nd.get("limit") is None and i != c["root"]:
                # an intermediate order_rows without limit has no effect on a relational result
                need[nd["src"]] |= n
                nd["_identity"] = True
            else:
                need[nd["src"]] |= n | set(nd["cols"])
        elif op == "natural_join":
            need[nd["a"]] |= (n & set(cols[nd["a"]])) | {a for a, _ in nd["on"]}
            need[nd["b"]] |= (n & set(cols[nd["b"]])) | {b for _, b in nd["on"]}
        elif op == "concat_rows":
            up = n - ({nd["id_column"]} if nd.get("id_column") else set())
            if not up:
                # only the row count of both sides matters; SOME column has to stay, which one is a free choice
                # (the caller may retry with another concat_pick when the chosen one drags in dead inputs)
                up = {cols[nd["a"]][concat_pick % len(cols[nd["a"]])]}
                c["_free_concat_choice"] = max(c.get("_free_concat_choice", 0), len(cols[nd["a"]]))
            need[nd["a"]] |= up
            need[nd["b"]] |= up
        elif op == "convert_records":
            need[nd["src"]] |= set(cols[nd["src"]])
        else:
            raise ValueError(op)
    # extends that lost every assignment become identities: re-route their consumers
    alias = {}
    for i in order:
        nd = nodes[i]
        for key in ("src", "a", "b"):
            if key in nd and nd[key] in alias:
                nd[key] = alias[nd[key]]
        if (nd["op"] == "extend" and not nd["ops"]) or nd.get("_identity"):
            alias[i] = nd["src"]
    if c["root"] in alias:
        c["root"] = alias[c["root"]]
    return c


def narrow(case, used, concat_pick=0):
    """Spec-level narrowing to the reported columns (after removing dead assignments)."""
    c = prune_dead(case, concat_pick)
    for tn, cols in used.items():
        t = c["tables"][tn]
        keep = [j for j, ent in enumerate(t["cols"]) if ent[0] in cols]
        t["cols"] = [t["cols"][j] for j in keep]
        t["rows"] = [[r[j] for j in keep] for r in t["rows"]]
    # walk nodes: recompute which columns exist, trim pure column lists
    exists = {}
    for i in spec.reachable(c):
        nd = c["nodes"][i]
        op = nd["op"]
        if op == "table":
            exists[i] = [e[0] for e in c["tables"][nd["name"]]["cols"]]
        elif op == "select_columns":
            nd["cols"] = [x for x in nd["cols"] if x in exists[nd["src"]]]
            exists[i] = list(nd["cols"])
        elif op == "drop_columns":
            nd["cols"] = [x for x in nd["cols"] if x in exists[nd["src"]]]
            exists[i] = [x for x in exists[nd["src"]] if x not in nd["cols"]]
        elif op == "rename_columns":
            nd["mapping"] = [[new, old] for new, old in nd["mapping"] if old in exists[nd["src"]]]
            rev = {old: new for new, old in nd["mapping"]}
            exists[i] = [rev.get(x, x) for x in exists[nd["src"]]]
        elif op == "map_columns":
            nd["mapping"] = [[old, new] for old, new in nd["mapping"] if old in exists[nd["src"]]]
            mp = {old: new for old, new in nd["mapping"]}
            exists[i] = [mp.get(x, x) for x in exists[nd["src"]] if mp.get(x, x) is not None]
        elif op == "extend":
            exists[i] = exists[nd["src"]] + [k for k, _ in nd["ops"] if k not in exists[nd["src"]]]
        elif op == "project":
            exists[i] = list(nd.get("group_by") or []) + [k for k, _ in nd["ops"]]
        elif op in ("select_rows", "order_rows"):
            exists[i] = list(exists[nd["src"]])
        elif op == "natural_join":
            exists[i] = exists[nd["a"]] + [x for x in exists[nd["b"]] if x not in exists[nd["a"]]]
        elif op == "concat_rows":
            exists[i] = exists[nd["a"]] + ([nd["id_column"]] if nd.get("id_column") else [])
        elif op == "convert_records":
            exists[i] = None  # not narrowed (record maps read declared columns)
        else:
            raise ValueError(op)
    return c


def _has_convert(case):
    return any(case["nodes"][i]["op"] == "convert_records" for i in spec.reachable(case))


def _empty_narrowed_step(case) -> bool:
    for i in spec.reachable(case):
        nd = case["nodes"][i]
        if nd["op"] in ("select_columns",) and not nd["cols"]:
            return True
        if nd["op"] == "table" and not case["tables"][nd["name"]]["cols"]:
            return True
    return False


def run_both(case):
    ops = spec.build(case)
    names = spec.used_tables(case)
    tables = spec.pandas_tables(case, names)
    p = engines.run_pandas(ops, tables)
    eng = engines.SQLiteEngine("sqlite")
    try:
        eng.load(tables)
        q = eng.run(ops)
    finally:
        eng.close()
    return p, q


def check(case):
    info = {}
    try:
        ops = spec.build(case)
    except Exception as e:
        info["builder_rejected"] = str(e)
        return None, info
    declared = {tn: [e[0] for e in case["tables"][tn]["cols"]] for tn in spec.used_tables(case)}
    cu = ops.columns_used()
    used = {tn: [c for c in declared[tn] if c in set(cu[tn])] for tn in declared}
    # (3) sanity of the report
    for tn in declared:
        bad = set(cu[tn]) - set(declared[tn])
        if bad:
            return Failure(f"columns_used reports undeclared columns {sorted(bad)} for {tn}", {"kind": "report_superset"}), info
    cu2 = ops.columns_used()
    if {k: set(v) for k, v in cu.items()} != {k: set(v) for k, v in cu2.items()}:
        return Failure("columns_used() is not repeatable", {"kind": "report_unstable"}), info
    try:
        ops.to_sql()
        cu3 = ops.columns_used()
        if {k: set(v) for k, v in cu.items()} != {k: set(v) for k, v in cu3.items()}:
            return Failure("columns_used() changed after to_sql()", {"kind": "report_changed_by_to_sql"}), info
    except Exception:
        pass
    unused = {tn: [c for c in declared[tn] if c not in set(cu[tn])] for tn in declared}
    info["n_unused"] = sum(len(v) for v in unused.values())
    if info["n_unused"] == 0:
        return None, info
    ordered_by = c01.final_order_cols(case)
    zn = c01.zn_columns(case)
    try:
        p0, q0 = run_both(case)
    except engines.EngineError as e:
        info["base_raised"] = e.bucket()
        return None, info
    # (1) perturbation
    for mode in ("fresh", "null"):
        pc = perturb(case, unused, mode)
        try:
            p1, q1 = run_both(pc)
        except engines.EngineError as e:
            return (
                Failure(
                    f"after perturbing unreported columns {unused} ({mode}) evaluation raises: {e}",
                    {"kind": "perturb_raises", "engine": e.engine},
                ),
                info,
            )
        for name, a, b in (("pandas", p0, p1), ("sqlite", q0, q1)):
            d = cmp.compare(a, b, ordered_by=ordered_by, zn_cols=())
            if d is not None:
                return (
                    Failure(
                        f"{name} result changed when unreported columns {unused} were perturbed ({mode}): {d}",
                        {"kind": "perturb_changes", "engine": name},
                        {"before": cmp.brief(a), "after": cmp.brief(b)},
                    ),
                    info,
                )
    # (2) narrowing
    if _has_convert(case):
        info["narrow_skipped_convert_records"] = True
        return None, info
    nc = narrow(case, used)
    for k in range(1, nc.get("_free_concat_choice", 0)):
        # a concat_rows of which only the id column is read: every choice of the one retained column is a valid
        # reading of "narrowed pipeline"; take the first choice that can be built on the reported columns
        try:
            spec.build(nc)
            break
        except Exception:
            nc = narrow(case, used, concat_pick=k)
            info["concat_choice_retried"] = True
    if nc.get("_free_concat_choice"):
        try:
            spec.build(nc)
        except Exception:
            # every retained column is computed from inputs that are (rightly) not reported: only the row count of
            # the concat sides is read. The spec-level narrowing cannot express that; the perturbation part above stands.
            info["narrow_skipped_rowcount_only_concat"] = True
            return None, info
    if _empty_narrowed_step(nc):
        info["narrow_skipped_empty"] = True
        return None, info
    try:
        p2, q2 = run_both(nc)
    except engines.EngineError as e:
        return (
            Failure(
                f"pipeline narrowed to the reported columns {used} fails to evaluate: {e}",
                {"kind": "narrow_eval_raises", "engine": e.engine},
            ),
            info,
        )
    except Exception as e:
        return (
            Failure(
                f"pipeline narrowed to the reported columns {used} cannot be built: {type(e).__name__}: {e}",
                {"kind": "narrow_build_raises"},
            ),
            info,
        )
    for name, a, b in (("pandas", p0, p2), ("sqlite", q0, q2)):
        d = cmp.compare(a, b, ordered_by=ordered_by, zn_cols=())
        if d is not None:
            return (
                Failure(
                    f"{name} result of the narrowed pipeline differs (reported {used}): {d}",
                    {"kind": "narrow_changes", "engine": name},
                    {"original": cmp.brief(a), "narrowed": cmp.brief(b)},
                ),
                info,
            )
    info["narrowed"] = True
    return None, info


def replay(check_name, case):
    f, _ = check(case)
    return f


def run(ctx):
    ev = ctx.ev
    ev.rule = (
        "random operator DAGs (vp.gen.programs) over tables that usually carry columns the program does not use; for each: "
        "perturb unreported columns (fresh values; all-null) and compare Pandas and SQLite results with the unperturbed run, "
        "rebuild the program narrowed to the reported columns and compare again; non-trivial = at least one table has an unreported "
        "column; distinct = SHA-1 of the case JSON"
    )
    ev.assumptions = [
        "narrowing is done at spec level (the library has no narrowing API): pure column lists of select/drop/rename/map_columns are "
        "intersected with the surviving columns, computing arguments are untouched and must still resolve",
        "programs containing convert_records are perturbed but not narrowed (a record map names its input columns itself)",
        "each engine is compared with itself (before/after), so cross-engine conventions do not matter here",
    ]
    ctx.probe_findings(replay)
    cfg = dict(BASE_CFG)
    cfg["closed"] = set(ctx.closed)

    def oracle(case):
        f, info = check(case)
        fs = gen.features(case)
        nt = info.get("n_unused", 0) > 0 and "base_raised" not in info
        if info.get("narrowed"):
            fs = fs + ["narrowed_ok"]
        ev.note(case, nt, fs, sample={"program": c01._sample(case), "unused_columns": info.get("n_unused")})
        for k in ("builder_rejected", "base_raised", "narrow_skipped_convert_records", "narrow_skipped_empty", "narrow_skipped_rowcount_only_concat", "concat_choice_retried"):
            if k in info:
                ev.count(k)
        return f

    ctx.campaign("main", gen.programs(cfg), oracle, max_examples=ctx.n(450, 32000))
