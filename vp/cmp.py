"""Frame normalisation and tolerant comparison (DESIGN.md 2.4).

normalise(frame) -> (columns, rows) with cells in {None (NULL), float, str}.
Null, NaN, pd.NA, NaT, Polars null are all NULL; bools are 0.0/1.0; numbers are floats.
"""

from __future__ import annotations

import math
from typing import Any, Dict, List, Optional, Sequence, Tuple

ABS_TOL = 1e-9
REL_TOL = 1e-7


def norm_cell(v):
    if v is None:
        return None
    try:
        import numpy

        if isinstance(v, numpy.generic):
            v = v.item()
    except Exception:
        pass
    if isinstance(v, bool):
        return 1.0 if v else 0.0
    if isinstance(v, (int, float)):
        v = float(v)
        if math.isnan(v):
            return None
        return v
    if isinstance(v, str):
        return v
    # pandas NA / NaT and friends
    try:
        import pandas

        if v is pandas.NA or v is pandas.NaT:
            return None
        if pandas.isna(v):
            return None
    except Exception:
        pass
    try:
        import decimal

        if isinstance(v, decimal.Decimal):
            return float(v)
    except Exception:
        pass
    return repr(v)


def normalise(frame) -> Tuple[List[str], List[List[Any]]]:
    """Convert a Pandas or Polars frame to (columns, rows of normalised cells)."""
    mod = type(frame).__module__
    if mod.startswith("polars"):
        if hasattr(frame, "collect") and not hasattr(frame, "rows"):
            frame = frame.collect()
        cols = list(frame.columns)
        rows = [[norm_cell(v) for v in r] for r in frame.rows()]
        return cols, rows
    cols = [str(c) for c in frame.columns]
    n = frame.shape[0]
    colvals = []
    for j in range(frame.shape[1]):
        s = frame.iloc[:, j]
        colvals.append([norm_cell(v) for v in s.tolist()])
    rows = [[colvals[j][i] for j in range(len(cols))] for i in range(n)]
    return cols, rows


def cell_eq(a, b, zn: bool = False) -> bool:
    if a is None or b is None:
        if a is None and b is None:
            return True
        if zn:
            other = b if a is None else a
            return isinstance(other, float) and other == 0.0
        return False
    if isinstance(a, str) or isinstance(b, str):
        return isinstance(a, str) and isinstance(b, str) and a == b
    if math.isinf(a) or math.isinf(b):
        return a == b
    return abs(a - b) <= ABS_TOL + REL_TOL * max(abs(a), abs(b))


def row_eq(ra, rb, zn_mask: Optional[Sequence[bool]] = None) -> bool:
    if len(ra) != len(rb):
        return False
    for i in range(len(ra)):
        if not cell_eq(ra[i], rb[i], bool(zn_mask[i]) if zn_mask else False):
            return False
    return True


def _sort_key(row):
    k = []
    for v in row:
        if v is None:
            k.append((0, 0.0, ""))
        elif isinstance(v, str):
            k.append((2, 0.0, v))
        else:
            k.append((1, round(v, 6) if math.isfinite(v) else v, ""))
    return k


def multiset_diff(rows_a, rows_b, zn_mask=None) -> Optional[str]:
    """None if equal as multisets under tolerant cell equality, else a short description."""
    if len(rows_a) != len(rows_b):
        return f"row counts differ: {len(rows_a)} vs {len(rows_b)}"
    # fast path: sorted pairwise
    sa = sorted(rows_a, key=_sort_key)
    sb = sorted(rows_b, key=_sort_key)
    if all(row_eq(x, y, zn_mask) for x, y in zip(sa, sb)):
        return None
    # greedy matching (n is small)
    unused = list(range(len(rows_b)))
    for ra in rows_a:
        hit = None
        for idx in unused:
            if row_eq(ra, rows_b[idx], zn_mask):
                hit = idx
                break
        if hit is None:
            return f"row {ra!r} of first has no partner in second"
        unused.remove(hit)
    return None


def align(cols_a, rows_a, cols_b, rows_b):
    """Reorder b's columns to a's order; None if the column sets differ."""
    if len(set(cols_a)) != len(cols_a) or len(set(cols_b)) != len(cols_b):
        return None
    if set(cols_a) != set(cols_b):
        return None
    idx = [cols_b.index(c) for c in cols_a]
    return [[r[i] for i in idx] for r in rows_b]


def compare(
    na,
    nb,
    *,
    ordered_by: Optional[List[str]] = None,
    zn_cols: Sequence[str] = (),
    exact_order: bool = False,
) -> Optional[str]:
    """Compare two normalised frames. ordered_by: both must present the same sequence of order-key
    tuples (rows tied on the whole key may permute). exact_order: rows equal position by position."""
    cols_a, rows_a = na
    cols_b, rows_b = nb
    if len(set(cols_a)) != len(cols_a):
        return f"duplicate columns in first: {cols_a}"
    if len(set(cols_b)) != len(cols_b):
        return f"duplicate columns in second: {cols_b}"
    if set(cols_a) != set(cols_b):
        return f"column sets differ: {sorted(cols_a)} vs {sorted(cols_b)}"
    rb = align(cols_a, rows_a, cols_b, rows_b)
    zn_mask = [c in zn_cols for c in cols_a]
    d = multiset_diff(rows_a, rb, zn_mask)
    if d is not None:
        return d
    if exact_order:
        for i, (x, y) in enumerate(zip(rows_a, rb)):
            if not row_eq(x, y, zn_mask):
                return f"row order differs at position {i}: {x!r} vs {y!r}"
    elif ordered_by:
        ki = [cols_a.index(c) for c in ordered_by]
        for i, (x, y) in enumerate(zip(rows_a, rb)):
            kx = [x[j] for j in ki]
            ky = [y[j] for j in ki]
            if not row_eq(kx, ky):
                return f"order-key sequence differs at position {i}: {kx!r} vs {ky!r}"
    return None


def cmp_cells(a, b) -> int:
    """Total preorder on non-null normalised cells of one type."""
    if a == b:
        return 0
    return -1 if a < b else 1


def order_violation(cols, rows, order_cols, reverse) -> Optional[str]:
    """Check rows are sorted by order_cols (reverse ⊆ order_cols descending). NULLs may sit at either
    end of a column's range consistently-or-not: a NULL compares as 'unordered' (any position)."""
    ki = [cols.index(c) for c in order_cols]
    desc = [c in set(reverse or []) for c in order_cols]
    for i in range(len(rows) - 1):
        x, y = rows[i], rows[i + 1]
        for j, d in zip(ki, desc):
            a, b = x[j], y[j]
            if a is None or b is None:
                if a is None and b is None:
                    continue
                break  # null placement is engine specific: do not judge
            if isinstance(a, str) != isinstance(b, str):
                return f"mixed types in order column at row {i}"
            if isinstance(a, float) and cell_eq(a, b):
                continue
            c = cmp_cells(a, b)
            if c == 0:
                continue
            if (c < 0) != (not d):
                return f"rows {i},{i+1} out of order on {cols[j]!r}: {a!r} then {b!r} (descending={d})"
            break
    return None


def brief(n, limit=6):
    cols, rows = n
    return {"columns": cols, "nrows": len(rows), "rows": rows[:limit]}
