#!/venv/bin/python
"""Development aid: print the seeded-change table of DESIGN.md 8b (markdown) from /verif/seeded/*/meta.json and
/verif/seeded/ROBUSTNESS.json ({"<change>": {"<check>": "k/3"}} = how many of VERIF_SEED 1,2,3 the quick tier caught it).
usage: tools/kill_matrix.py [--summary]"""
import json
import os
import sys

ROOT = os.path.dirname(os.path.dirname(os.path.abspath(__file__)))
rob_path = os.path.join(ROOT, "seeded", "ROBUSTNESS.json")
rob = json.load(open(rob_path)) if os.path.exists(rob_path) else {}
rows = []
for d in sorted(os.listdir(os.path.join(ROOT, "seeded"))):
    mp = os.path.join(ROOT, "seeded", d, "meta.json")
    if not os.path.exists(mp):
        continue
    m = json.load(open(mp))
    what = (m.get("what") or "").replace("|", "/")
    needs = (m.get("needs") or "").replace("|", "/")
    own = d.split("-")[0]
    r = rob.get(d, {})
    others = sorted(c for c in (m.get("caught_by") or []) if c != own)
    status = m.get("status", "")
    if status in ("obsolete", "moot", "superseded"):
        verdict = status + ": " + (m.get("note") or "")[:160]
        kind = "other"
    elif own in r:
        verdict = f"{own} {r[own]}" + (("; also " + ", ".join(others)) if others else "")
        k = int(r[own].split("/")[0])
        kind = "caught" if k == 3 else ("partly" if k > 0 else "missed")
        if kind != "caught" and others:
            kind = "caught_elsewhere"
    else:
        verdict = "not measured"
        kind = "other"
    rows.append((d, what, needs, verdict, kind))
if "--summary" in sys.argv:
    import collections

    print(dict(collections.Counter(r[4] for r in rows)), len(rows))
    sys.exit(0)
print("| change | what it does | what it needs to manifest | quick tier of its own check at VERIF_SEED 1, 2, 3 |")
print("|---|---|---|---|")
for d, what, needs, verdict, kind in rows:
    print(f"| {d} | {what} | {needs} | {verdict} |")
