#!/venv/bin/python
"""Development aid: print the seeded-change table of DESIGN.md 8b from /verif/seeded/*/meta.json (markdown)."""
import json
import os
import sys

ROOT = os.path.dirname(os.path.dirname(os.path.abspath(__file__)))
rows = []
for d in sorted(os.listdir(os.path.join(ROOT, "seeded"))):
    mp = os.path.join(ROOT, "seeded", d, "meta.json")
    if not os.path.exists(mp):
        continue
    m = json.load(open(mp))
    caught = m.get("caught_by") or []
    checks = m.get("checks", {})
    missed = sorted(c for c, v in checks.items() if v.get("exit") == 0)
    status = m.get("status", "")
    what = (m.get("what") or "").replace("|", "/")
    needs = (m.get("needs") or "").replace("|", "/")
    if status == "obsolete":
        verdict = "moot (see note)"
    elif not m.get("applies", True):
        verdict = "does not apply to the final tree"
    elif caught:
        verdict = "**" + ", ".join(caught) + "**" + ((" (not: " + ", ".join(missed) + ")") if missed else "")
    else:
        verdict = "MISSED" + ((" by " + ", ".join(missed)) if missed else "")
    rows.append((d, what, needs, verdict))
if "--summary" in sys.argv:
    n = len(rows)
    c = sum(1 for r in rows if r[3].startswith("**"))
    print(f"{n} changes, {c} caught, {sum(1 for r in rows if r[3].startswith('MISSED'))} missed, {n - c - sum(1 for r in rows if r[3].startswith('MISSED'))} other")
    sys.exit(0)
print("| change | what it does | what it needs to manifest | caught by (quick tier, VERIF_SEED=1) |")
print("|---|---|---|---|")
for d, what, needs, verdict in rows:
    print(f"| {d} | {what} | {needs} | {verdict} |")
