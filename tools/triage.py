#!/venv/bin/python
"""Development aid: draw N programs and bucket differential outcomes without stopping at the first failure.
usage: tools/triage.py <module.fn returning (Failure|None, info)> N [seed] [closed flags,comma]"""
import collections
import json
import os
import sys
import time
import warnings

warnings.filterwarnings("ignore")
ROOT = os.path.dirname(os.path.dirname(os.path.abspath(__file__)))
sys.path.insert(0, ROOT)

import hypothesis  # noqa
from hypothesis import HealthCheck, Phase, given, settings  # noqa

from vp import gen, spec  # noqa
from vp.common import canon  # noqa


def main():
    target = sys.argv[1]
    n = int(sys.argv[2])
    seed = int(sys.argv[3]) if len(sys.argv) > 3 else 1
    closed = set(sys.argv[4].split(",")) if len(sys.argv) > 4 and sys.argv[4] else set()
    cfgextra = json.loads(sys.argv[5]) if len(sys.argv) > 5 else {}
    modname, fn = target.rsplit(".", 1)
    mod = __import__(modname, fromlist=[fn])
    f = getattr(mod, fn)
    buckets = collections.Counter()
    examples = {}
    feats = collections.Counter()
    cfg = dict(getattr(mod, "BASE_CFG", {}))
    cfg["closed"] = closed
    cfg.update(cfgextra)
    t0 = time.time()

    @hypothesis.seed(seed)
    @settings(max_examples=n, deadline=None, database=None, suppress_health_check=list(HealthCheck), phases=[Phase.generate])
    @given(gen.programs(cfg))
    def t(case):
        for x in gen.features(case):
            feats[x] += 1
        try:
            fail, info = f(case)
        except Exception as e:
            import traceback

            key = "HARNESS:" + type(e).__name__ + ":" + str(e)[:80]
            buckets[key] += 1
            if key not in examples:
                examples[key] = (case, traceback.format_exc())
            return
        for k in info:
            if k != "rows":
                buckets["info:" + k] += 1
                if k == "builder_rejected":
                    kk = "rejected:" + info[k][:70]
                    buckets[kk] += 1
                    if kk not in examples or len(canon(case)) < len(canon(examples[kk][0])):
                        examples[kk] = (case, info[k])
        if fail is None:
            buckets["ok"] += 1
        else:
            key = fail.sig.get("kind", "?") + ":" + fail.sig.get("bucket", "") + ":" + fail.msg[:90]
            buckets[key] += 1
            if key not in examples or len(canon(case)) < len(canon(examples[key][0])):
                examples[key] = (case, fail)

    t()
    print(f"{n} cases in {time.time()-t0:.1f}s")
    for k, v in buckets.most_common():
        print(f"#{v:6d}  {k}")
    print("features:", dict(feats.most_common()))
    out = os.environ.get("TRIAGE_OUT", "/tmp/triage_examples.json")
    with open(out, "w") as fh:
        json.dump({k: {"case": c, "what": repr(w)} for k, (c, w) in examples.items()}, fh, default=repr)
    for k, (c, w) in list(examples.items())[:12]:
        print("-----", k)
        try:
            print(spec.build(c).to_python(pretty=False).strip())
        except Exception as e:
            print("unbuildable", e)
        for tn in spec.used_tables(c):
            print(" ", tn, c["tables"][tn]["cols"], c["tables"][tn]["rows"])
        print("  =>", repr(w)[:600], getattr(w, "detail", ""))


if __name__ == "__main__":
    main()
