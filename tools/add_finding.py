#!/venv/bin/python
"""Development aid (never used by checks): append/replace an entry of /verif/known_findings.json.
usage: tools/add_finding.py '<json dict>'   (dict needs id, property, status, title, replay; open ones signature/flags)"""
import json
import os
import sys

ROOT = os.path.dirname(os.path.dirname(os.path.abspath(__file__)))
path = os.path.join(ROOT, "known_findings.json")
entries = json.load(open(path))
new = json.loads(sys.argv[1])
assert {"id", "property", "status", "title"} <= set(new), new
if new["status"] == "fixed" and "fixed" not in new:
    props = new["property"] if isinstance(new["property"], list) else [new["property"]]
    new["fixed"] = f"fixed: property={props[0]} {new.get('commit')} {new['title']}"
if new.get("replay"):
    assert os.path.exists(os.path.join(ROOT, new["replay"])), new["replay"]
entries = [e for e in entries if e["id"] != new["id"]] + [new]
entries.sort(key=lambda e: int(e["id"][1:]))
with open(path, "w") as f:
    f.write("[\n" + ",\n".join(" " + json.dumps(e) for e in entries) + "\n]\n")
print(len(entries), "entries")
