#!/venv/bin/python
"""Compare a pytest junit xml of /repo's suite against /root/.vp/BASELINE.json stable_pass."""
import json, sys, xml.etree.ElementTree as ET
base = json.load(open("/root/.vp/BASELINE.json"))
want = set(base["stable_pass"])
passed = set()
for tc in ET.parse(sys.argv[1]).getroot().iter("testcase"):
    name = tc.get("classname") + "::" + tc.get("name")
    if not any(ch.tag in ("failure", "error", "skipped") for ch in tc):
        passed.add(name)
missing = sorted(want - passed)
print(f"baseline stable_pass={len(want)} passed_now={len(passed)} missing={len(missing)} new_passes={len(passed-want)}")
for m in missing: print("  MISSING", m)
for m in sorted(passed - want): print("  NEWPASS", m)
sys.exit(1 if missing else 0)
