#!/venv/bin/python
"""Development aid: for every internal name, place it on a column (and on a table) of ~N generated programs and
record which (engine, name) combinations fail the C15 oracle. Output: JSON {engine: {name: example message}}."""
import collections
import json
import os
import sys
import warnings

warnings.filterwarnings("ignore")
ROOT = os.path.dirname(os.path.dirname(os.path.abspath(__file__)))
sys.path.insert(0, ROOT)

import hypothesis  # noqa
from hypothesis import HealthCheck, Phase, given, settings, strategies as st  # noqa

from vp import gen  # noqa
from vp.checks import c15  # noqa

N = int(sys.argv[1]) if len(sys.argv) > 1 else 40
names = c15.internal_names() + [c15.ORDINARY[0] + s for s in c15.SUFFIXES]
bad = collections.defaultdict(dict)
cases = []


@hypothesis.seed(5)
@settings(max_examples=N, deadline=None, database=None, suppress_health_check=list(HealthCheck), phases=[Phase.generate])
@given(gen.programs(c15.BASE_CFG), st.integers(0, 7))
def collect(case, idx):
    cases.append((case, idx))


collect()
for n in names:
    for kind in ("force_col", "force_table"):
        for case, idx in cases:
            w = {"case": case, "pool": list(c15.ORDINARY) + [f"o{i}" for i in range(30)], "suffix_pair": None, kind: n, "force_idx": idx}
            if n.endswith(tuple(c15.SUFFIXES)) and kind == "force_col":
                # make the base name exist too: first ordinary name is taken by the first column
                pass
            try:
                f, info = c15.check(w)
            except Exception as e:
                bad["HARNESS"][n] = repr(e)[:200]
                continue
            if f is not None:
                eng = f.sig.get("engine", f.sig.get("kind"))
                key = f"{kind}:{n}"
                if key not in bad[eng]:
                    bad[eng][key] = f.msg[:160]
print(json.dumps(bad, indent=1))
