#!/venv/bin/python
"""Regenerate /verif/MANIFEST.json from the table below (kept in one place so it stays valid)."""
import json
import os
import sys

ROOT = os.path.dirname(os.path.dirname(os.path.abspath(__file__)))
sys.path.insert(0, ROOT)

from tools.manifest_table import CHECKS, NOT_APPLICABLE, ENGINES  # noqa: E402

RUN = "PYTHONHASHSEED=0 /venv/bin/python -m vp.run"

props = [json.loads(l) for l in open(os.path.join(ROOT, "properties.jsonl"))]
ids = [p["id"] for p in props]

checks = []
for pid in ids:
    if pid not in CHECKS:
        continue
    c = CHECKS[pid]
    checks.append(
        {
            "property_id": pid,
            "quick_cmd": f"{RUN} {pid} --tier quick",
            "thorough_cmd": f"{RUN} {pid} --tier thorough",
            "evidence_file": f"/verif/evidence/{pid}.json",
            "replay_cmd_template": f"{RUN} {pid} --replay {{path}}",
            "engine": c.get("engine", "hypothesis"),
            "level_claimed": {
                "category": c.get("category", "exploration"),
                "text": c["text"],
                "design_ref": f"DESIGN.md section 3, {pid}",
            },
            "level_note": c["note"],
            "technique": c["technique"],
        }
    )

na = [{"property_id": pid, "reason": NOT_APPLICABLE[pid]} for pid in ids if pid not in CHECKS]
missing = [pid for pid in ids if pid not in CHECKS and pid not in NOT_APPLICABLE]
assert not missing, missing

manifest = {
    "version": 1,
    "setup_cmd": "cd /verif && ./setup.sh",
    "hooks": {
        "guard": "DATA_ALGEBRA_VERIF",
        "enable": "no instrumentation hooks exist: every check drives the public API of the editable install of /repo (current working tree); the guard name is reserved and unused",
        "baseline_off_cmd": "cd /repo && /venv/bin/python -m pytest -ra -q -p no:cacheprovider --timeout=900 --continue-on-collection-errors",
        "source_commits": [],
        "add_only": True,
    },
    "engines": ENGINES,
    "checks": checks,
    "notes": "One entry point: `python -m vp.run <Cxx> --tier quick|thorough` (VERIF_SEED from env, default 1); `--replay <file>` re-runs a saved case without Hypothesis. Exit 0 held / 1 VIOLATION / 2 harness error. Known findings: /verif/known_findings.json (never written at run time).",
    "not_applicable": na,
}
with open(os.path.join(ROOT, "MANIFEST.json"), "w") as f:
    json.dump(manifest, f, indent=1)
    f.write("\n")

try:
    import jsonschema

    schema = json.load(open("/root/.vp/MANIFEST.schema.json"))
    jsonschema.validate(manifest, schema)
    print("MANIFEST.json valid;", len(checks), "checks,", len(na), "not claimed")
except ImportError:
    print("MANIFEST.json written (jsonschema not importable here);", len(checks), "checks")
