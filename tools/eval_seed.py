#!/venv/bin/python
"""Development aid: confirm a seeded change delivered by a sub-agent and run checks against it.

usage: tools/eval_seed.py <PID> <mN> [--suite] [--checks C06,C01] [--tier quick]
Reads /tmp/seed_<PID>_out/<mN>.diff + demo_<mN>.py. Creates a scratch worktree of /repo HEAD, applies the diff,
(optionally) runs the repo's suite against it, runs the demo with and without the change, runs the given checks
(default: the property's own check) with PYTHONPATH pointing at the worktree, removes the worktree, and writes
/verif/seeded/<PID>-<mN>/{patch.diff, demo.py, meta.json}.
"""
import json
import os
import shutil
import subprocess
import sys
import time

ROOT = os.path.dirname(os.path.dirname(os.path.abspath(__file__)))


def sh(cmd, **kw):
    return subprocess.run(cmd, shell=True, capture_output=True, text=True, **kw)


def main():
    pid, mn = sys.argv[1], sys.argv[2]
    args = sys.argv[3:]
    suite = "--suite" in args
    checks = [pid]
    tier = "quick"
    for i, a in enumerate(args):
        if a == "--checks":
            checks = args[i + 1].split(",")
        if a == "--tier":
            tier = args[i + 1]
    src = f"/tmp/seed_{pid}_out"
    name = mn  # directory suffix under /verif/seeded (round-2 changes m1/m2 of /tmp/seed2_* are stored as m3/m4)
    for i, a in enumerate(args):
        if a == "--src":
            src = args[i + 1]
        if a == "--name":
            name = args[i + 1]
    diff = f"{src}/{mn}.diff"
    demo = f"{src}/demo_{mn}.py"
    wt = f"/tmp/wt_seed_{pid}_{name}"
    sh(f"git -C /repo worktree remove --force {wt}")
    r = sh(f"git -C /repo worktree add -q {wt} HEAD")
    meta = {"property": pid, "change": name, "repo_head": sh("git -C /repo log --format=%h -1").stdout.strip()}
    try:
        r = sh(f"git -C {wt} apply {diff}")
        meta["applies"] = r.returncode == 0
        if r.returncode != 0:
            meta["apply_error"] = r.stderr[-500:]
            print(json.dumps(meta, indent=1))
            return
        meta["diff_lines"] = len([l for l in open(diff) if l.startswith(("+", "-")) and not l.startswith(("+++", "---"))])
        imp = sh(f"cd /tmp && PYTHONPATH={wt} /venv/bin/python -c 'import data_algebra'")
        meta["imports"] = imp.returncode == 0
        if suite:
            r = sh(f"/tmp/seedkit/check_suite.sh {wt}")
            meta["suite"] = r.stdout.strip().splitlines()[0] if r.stdout.strip() else r.stderr[-300:]
            meta["suite_broken"] = [l.strip() for l in r.stdout.splitlines() if "BROKEN " in l and "BROKEN:" not in l]
        r0 = sh(f"cd /tmp && /venv/bin/python {demo}")
        r1 = sh(f"cd /tmp && PYTHONPATH={wt} /venv/bin/python {demo}")
        meta["demo_without_change"] = {"exit": r0.returncode, "out": (r0.stdout + r0.stderr).strip()[-300:]}
        meta["demo_with_change"] = {"exit": r1.returncode, "out": (r1.stdout + r1.stderr).strip()[-400:]}
        meta["demo_confirms"] = r0.returncode == 0 and r1.returncode != 0
        meta["checks"] = {}
        for c in checks:
            t0 = time.time()
            r = sh(f"cd {ROOT} && VERIF_SEED=1 PYTHONPATH={wt} PYTHONHASHSEED=0 /venv/bin/python -m vp.run {c} --tier {tier}")
            viol = [l for l in r.stdout.splitlines() if l.startswith("VIOLATION")]
            first = [l for l in r.stderr.splitlines() if l.startswith("[")][:1]
            meta["checks"][c] = {"tier": tier, "exit": r.returncode, "violations": len(viol), "wall_s": round(time.time() - t0), "first": (first[0][:300] if first else "")}
        meta["caught_by"] = [c for c, v in meta["checks"].items() if v["exit"] == 1]
    finally:
        sh(f"git -C /repo worktree remove --force {wt}")
        sh(f"cd {ROOT} && git checkout -q -- evidence; git clean -fdq replays")
    out = os.path.join(ROOT, "seeded", f"{pid}-{name}")
    os.makedirs(out, exist_ok=True)
    shutil.copy(diff, os.path.join(out, "patch.diff"))
    shutil.copy(demo, os.path.join(out, "demo.py"))
    notes = os.path.join(src, "NOTES.md")
    if os.path.exists(notes):
        shutil.copy(notes, os.path.join(out, "agent_notes.md"))
    prev = {}
    mp = os.path.join(out, "meta.json")
    if os.path.exists(mp):
        prev = json.load(open(mp))
        for k in ("suite", "suite_broken", "needs", "what", "note", "status"):
            if k in prev and k not in meta:
                meta[k] = prev[k]
        pc = {} if "--fresh" in args else prev.get("checks", {})
        pc.update(meta.get("checks", {}))
        meta["checks"] = pc
        meta["caught_by"] = sorted(c for c, v in pc.items() if v["exit"] == 1)
    json.dump(meta, open(mp, "w"), indent=1)
    print(json.dumps(meta, indent=1))


if __name__ == "__main__":
    main()
