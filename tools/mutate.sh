#!/bin/sh
# usage: tools/mutate.sh <file-relative-to-repo> <sed-expression> <check ids...>
# Applies one sed edit in a scratch worktree of /repo HEAD, runs the quick tier of the given checks against it, removes the worktree.
set -u
F="$1"; E="$2"; shift 2
WT=/tmp/wt_mut_$$
git -C /repo worktree add -q "$WT" HEAD || exit 2
sed -i "$E" "$WT/$F"
if git -C "$WT" diff --quiet; then echo "MUTATION DID NOT APPLY"; git -C /repo worktree remove --force "$WT"; exit 2; fi
git -C "$WT" diff | grep '^[-+]' | grep -v '^[-+][-+]' | head -6
for c in "$@"; do
  T0=$(date +%s)
  OUT=$(cd /verif && PYTHONPATH="$WT" PYTHONHASHSEED=0 VERIF_NO_EVIDENCE=1 /venv/bin/python -m vp.run "$c" --tier quick 2>&1)
  RC=$?
  echo "$c exit=$RC $(( $(date +%s) - T0 ))s $(echo "$OUT" | grep -c '^VIOLATION') violation(s): $(echo "$OUT" | grep -v KNOWN | grep '^\[' | head -1 | cut -c1-200)"
done
git -C /repo worktree remove --force "$WT"
cd /verif && git checkout -q -- evidence 2>/dev/null; git -C /verif clean -fdq replays 2>/dev/null
