"""Per-property manifest data (edited by hand; tools/mk_manifest.py turns it into MANIFEST.json)."""

ENGINES = [
    {"name": "hypothesis", "path": "/verif/vp", "serves_properties": [], "kind_free_text": "property-based testing (Hypothesis 6.168) over plain-data specs; failures shrunk and saved as replay files"},
    {"name": "hypothesis-stateful", "path": "/verif/vp", "serves_properties": ["C24"], "kind_free_text": "Hypothesis RuleBasedStateMachine histories checked against an executable model"},
]

_PENDING = "check not built yet in this round (the technique applies; see DESIGN.md section 3)"

CHECKS = {
    "C24": {
        "engine": "hypothesis-stateful",
        "technique": "stateful model-based testing (Hypothesis RuleBasedStateMachine vs list+set model) + stateless algebraic checks of ordered_* helpers",
        "text": "Random operation histories (12 rule kinds, 8-value pool, <=40 steps) are executed on OrderedSet and on a list+set reference model; membership, length, equality with plain sets and iteration order are compared after every step. Exploration only: bounded histories, no proof of absence.",
        "note": "Trusted: the list+set model in vp/checks/c24.py. Iteration order of the collections.abc mixin operators (& | - ^) is deliberately not checked (only their element set).",
    },
}

NOT_APPLICABLE = {f"C{i:02d}": _PENDING for i in range(1, 28) if f"C{i:02d}" not in CHECKS}
