"""Per-property manifest data (edited by hand; tools/mk_manifest.py turns it into MANIFEST.json)."""

ENGINES = [
    {"name": "hypothesis", "path": "/verif/vp", "serves_properties": [], "kind_free_text": "property-based testing (Hypothesis 6.168) over plain-data specs; failures shrunk and saved as replay files"},
    {"name": "hypothesis-stateful", "path": "/verif/vp", "serves_properties": ["C20", "C24", "C25"], "kind_free_text": "Hypothesis RuleBasedStateMachine histories checked step by step against an executable model"},
    {"name": "sqlite-surrogate", "path": "/verif/vp/engines.py", "serves_properties": ["C02", "C04", "C08", "C14", "C16"], "kind_free_text": "PostgreSQL-dialect SQL text executed on SQLite 3.40 (stand-in: no PostgreSQL server exists in the sandbox)"},
]

_PENDING = "check not built yet in this round (the technique applies; see DESIGN.md section 3)"

_GEN = "random well-typed operator DAGs from vp.gen (1-2 tables, 0-7 rows with nulls/duplicates/ties, <=8 operator nodes incl. joins, concat, windows, projects, record maps, shared sub-pipelines)"

CHECKS = {
    "C01": {
        "technique": "differential property-based testing: Pandas executor vs to_sql()+SQLite on generated operator DAGs and tables",
        "text": f"Differential exploration: {_GEN} are evaluated by the Pandas executor and by the generated SQL on a real in-memory SQLite; column sets, row multisets (float tolerance, null==NaN) and the key sequence after a final order_rows must agree. Regions of two recorded open findings (null join keys on Pandas, FULL join on differently named keys on SQLite) are excluded by construction and counted. Exploration only.",
        "note": "Trusted: vp.cmp comparator, vp.schema type/nullability tracker (decides which columns are zero/null tolerant), SQLite 3.40 as SQL engine. Method fragment is the 'core' list of DESIGN.md 2.2 (no integer / // %, no comparisons on nullable operands: documented conventions).",
    },
    "C02": {
        "engine": "sqlite-surrogate",
        "technique": "differential property-based testing: Pandas vs PostgreSQL-dialect SQL executed on a SQLite surrogate (with and without CTE elimination)",
        "text": "PARTIAL. No PostgreSQL server exists in the sandbox, so the PostgreSQL dialect's SQL text (native RIGHT/FULL JOIN, WITH, CTE elimination, PostgreSQL formatters) is executed on SQLite 3.40 with shims for LN/STDDEV_SAMP/VAR_SAMP and compared with Pandas as in C01. This decides the translation half of the property; it does not decide engine-dependent PostgreSQL semantics. Surrogate refusals are counted inconclusive, never violations.",
        "note": "Trusted: SQLite 3.40.1 as a stand-in executor for PostgreSQL-dialect text; everything C01 trusts. A real PostgreSQL server is required for the full property and is not available offline.",
    },
    "C03": {
        "technique": "differential property-based testing: Polars executor (eager and lazy) vs Pandas executor on generated operator DAGs; exceptions allowed and bucketed",
        "text": "Differential exploration on generated DAGs and tables: whenever the Polars executor (eager or lazy) returns, its column set and row multiset must equal the Pandas result, and eager must equal lazy; a raising Polars run is allowed by the property and is counted per (exception type, innermost data_algebra frame). Evidence reports the returned/raised ratio.",
        "note": "Trusted: Pandas executor as reference side (its own recorded finding, null join keys, is closed by flag), vp.cmp, vp.schema. polars 1.44 lacks several old-API methods (cumsum...), so ordered windows mostly raise and are down-weighted, not removed.",
    },
    "C13": {
        "technique": "grammar-based property testing: generated expression texts evaluated by the DSL vs CPython eval on a common domain, plus print/parse round trip",
        "text": "Expression texts are built by construction from a typed, layered grammar mirroring Python's precedence levels (or/and/not/comparisons incl. chains/+ -/* / // %/unary/**/atoms, redundant parentheses, whitespace, method calls); each accepted text is evaluated through extend() on an 8-row frame and compared row-wise with CPython's eval wherever both define the operators identically; the parsed tree must survive print -> parse with is_equal and identical text.",
        "note": "Trusted: CPython as reference evaluator; the common-domain filter (no division by zero, no complex/non-finite intermediates, logical connectives on bools only). Parser rejections are allowed and counted.",
    },
    "C04": {
        "engine": "sqlite-surrogate",
        "technique": "metamorphic property-based testing: the same generated pipeline under every SQLFormatOptions / extend-merge / dialect variant must return the same table",
        "text": "Metamorphic exploration: generated DAGs biased to shared sub-pipelines under two consumers and chains of extends are translated under 16 (quick) or 288 (thorough) variants of use_with x use_cte_elim x annotate x initial_commas x sql_indent x allow_extend_merges x {SQLite, SQLite with CTE elimination enabled, PostgreSQL dialect}; every variant is executed on SQLite and compared with the un-optimised baseline of its dialect and across dialects; to_sql must also be repeatable. Evidence counts how often CTE elimination / SQL-level merging actually fired.",
        "note": "Trusted: SQLite 3.40 as executor of all three dialect configurations (PostgreSQL text on a surrogate), vp.cmp. FULL joins on nullable keys are excluded while finding F14 (SQLite FULL join emulation) is open.",
    },
    "C20": {
        "engine": "hypothesis-stateful",
        "technique": "stateful model-based testing: RuleBasedStateMachine driving DataModelSpace and DBSpace(SQLite) against dict models",
        "text": "Random histories (<=25 steps) of insert/execute/remove/describe/retrieve/keys with user keys, automatic keys and keys equal to the automatic names are applied to the in-memory and the SQLite-backed data space and to a dict model; after every step keys(), retrieve() and describe() must match the model, illegal operations must raise and change nothing, automatic keys must be fresh.",
        "note": "Trusted: the dict model and the Pandas executor on a five-pipeline null-free family (used to compute expected execute() results). Copy semantics and exception types are not checked (undocumented).",
    },
    "C21": {
        "technique": "model-based property testing of each solution helper against plain-Python references (scipy rankdata as second opinion) on Pandas and SQLite",
        "text": "For rank_to_average, last_observed_carried_forward, replicate_rows_query and def_multi_column_map, generated valid inputs (ties, partitions, leading nulls, counts at power-of-two boundaries, unmapped values, empty tables) are evaluated on Pandas and on SQLite and compared with obviously-correct loop references. One open finding (single-column def_multi_column_map) is excluded by construction.",
        "note": "Trusted: the reference loops in vp/checks/c21.py (rank cross-checked against scipy.stats.rankdata), vp.cmp, SQLite. Null order values / null partition keys / tied LOCF orders are outside the documented domain and not generated.",
    },
    "C22": {
        "technique": "model-based property testing: generated specs x calls against an independent reference model of the documented schema contract",
        "text": "Generated schema specifications (types, type sets, example values, sets of examples, nested column dicts, arg_specs=None) and calls (positional/keyword/omitted; scalars, numpy scalars, nulls, Pandas and Polars frames with missing/extra/wrong-typed/null/empty columns) are checked against a reference model: TypeError iff the model says violation, result identity otherwise, never an exception with the switch off.",
        "note": "Trusted: the reference model in vp/checks/c22.py, derived from the docstrings/README. Subclass instances (bool for int, numpy.float64 for float) and nulls passed directly as arguments are left unjudged because the documentation is silent.",
    },
    "C23": {
        "technique": "property-based testing against an independent union-find reference over generated edge lists (direct call and pipeline routes)",
        "text": "Generated edge lists (ints near 2^62, strings, floats incl. inf, tuples, mixed int/float; random pairs, adversarially ordered chains/trees, self loops, repeats) are labelled by connected_components through lists, tuples, numpy arrays, Series and the Pandas pipeline methods, and compared with an independent union-find: label == least vertex of the component, same label iff same component.",
        "note": "Trusted: the union-find reference in vp/checks/c23.py, run on the values as the code sees them after numpy/pandas conversion. Vertices are mutually orderable, no NaN/None.",
    },
    "C25": {
        "engine": "hypothesis-stateful",
        "technique": "model-based history testing of ResultCache against a dict model + metamorphic single-point variants of cache keys",
        "text": "Histories of store/get/mutate-returned-copy/mutate-caller-frame over near-miss data maps are checked against a dict model (hit iff same dialect, SQL and content; returned frame equal; mutations never leak), and single-point variants of a data map (cell, column name, column order, row add/remove/permute, table name, one SQL character, dialect) must never share make_cache_key with the original.",
        "note": "Trusted: the dict model and canonical-content classifier in vp/checks/c25.py. Pairs that differ only in dtype / None-vs-NaN / index labels are left unjudged (the property lists values, names, shape and row order only).",
    },
    "C24": {
        "engine": "hypothesis-stateful",
        "technique": "stateful model-based testing (Hypothesis RuleBasedStateMachine vs list+set model) + stateless algebraic checks of ordered_* helpers",
        "text": "Random operation histories (12 rule kinds, 8-value pool, <=40 steps) are executed on OrderedSet and on a list+set reference model; membership, length, equality with plain sets and iteration order are compared after every step. Exploration only: bounded histories, no proof of absence.",
        "note": "Trusted: the list+set model in vp/checks/c24.py. Iteration order of the collections.abc mixin operators (& | - ^) is deliberately not checked (only their element set).",
    },
}

NOT_APPLICABLE = {f"C{i:02d}": _PENDING for i in range(1, 28) if f"C{i:02d}" not in CHECKS}
