"""Per-property manifest data (edited by hand; tools/mk_manifest.py turns it into MANIFEST.json)."""

ENGINES = [
    {"name": "hypothesis", "path": "/verif/vp", "serves_properties": [], "kind_free_text": "property-based testing (Hypothesis 6.168) over plain-data specs; failures shrunk and saved as replay files"},
    {"name": "hypothesis-stateful", "path": "/verif/vp", "serves_properties": ["C20", "C24", "C25"], "kind_free_text": "Hypothesis RuleBasedStateMachine histories checked step by step against an executable model"},
    {"name": "sqlite-surrogate", "path": "/verif/vp/engines.py", "serves_properties": ["C02", "C04", "C08", "C14", "C16"], "kind_free_text": "PostgreSQL-dialect SQL text executed on SQLite 3.40 (stand-in: no PostgreSQL server exists in the sandbox)"},
]

_PENDING = "check not built yet in this round (the technique applies; see DESIGN.md section 3)"

_GEN = "random well-typed operator DAGs from vp.gen (1-2 tables, 0-7 rows with nulls/duplicates/ties, <=8 operator nodes incl. joins, concat, windows, projects, record maps, shared sub-pipelines)"

CHECKS = {
    "C01": {
        "technique": "differential property-based testing: Pandas executor vs to_sql()+SQLite on generated operator DAGs and tables",
        "text": f"Differential exploration: {_GEN} are evaluated by the Pandas executor and by the generated SQL on a real in-memory SQLite; column sets, row multisets (float tolerance, null==NaN) and the key sequence after a final order_rows must agree. No region is excluded (all findings of this property are repaired; their replays run as regressions). Exploration only.",
        "note": "Trusted: vp.cmp comparator, vp.schema type/nullability tracker (decides which columns are zero/null tolerant), SQLite 3.40 as SQL engine. Method fragment is the 'core' list of DESIGN.md 2.2 (no integer / // %, no comparisons on nullable operands: documented conventions).",
    },
    "C02": {
        "engine": "sqlite-surrogate",
        "technique": "differential property-based testing: Pandas vs PostgreSQL-dialect SQL executed on a SQLite surrogate (with and without CTE elimination)",
        "text": "PARTIAL. No PostgreSQL server exists in the sandbox, so the PostgreSQL dialect's SQL text (native RIGHT/FULL JOIN, WITH, CTE elimination, PostgreSQL formatters) is executed on SQLite 3.40 with shims for LN/STDDEV_SAMP/VAR_SAMP and compared with Pandas as in C01. This decides the translation half of the property; it does not decide engine-dependent PostgreSQL semantics. Surrogate refusals are counted inconclusive, never violations.",
        "note": "Trusted: SQLite 3.40.1 as a stand-in executor for PostgreSQL-dialect text; everything C01 trusts. A real PostgreSQL server is required for the full property and is not available offline.",
    },
    "C03": {
        "technique": "differential property-based testing: Polars executor (eager and lazy) vs Pandas executor on generated operator DAGs; exceptions allowed and bucketed",
        "text": "Differential exploration on generated DAGs and tables: whenever the Polars executor (eager or lazy) returns, its column set and row multiset must equal the Pandas result, and eager must equal lazy; a raising Polars run is allowed by the property and is counted per (exception type, innermost data_algebra frame). Evidence reports the returned/raised ratio. A second campaign (nan_flow) computes a NaN inside the pipeline (0.0/0.0) and feeds it to one consumer; the NaN-unaware methods are recorded finding F78 and excluded while it is open.",
        "note": "Trusted: Pandas executor as reference side, vp.cmp, vp.schema. polars 1.44 lacks several old-API methods (cumsum...), so ordered windows mostly raise and are down-weighted, not removed.",
    },
    "C05": {
        "engine": "sqlite-surrogate",
        "technique": "exhaustive enumeration of (catalogue row x backend) cells, each driven by a small Hypothesis campaign against reference functions written from the docstrings",
        "text": "All 124 catalogue rows are enumerated (107 checkable: date/time, random and one undocumented row are listed as not checked); for Pandas, SQLite where the catalogue says 'y', the PostgreSQL dialect on the SQLite surrogate, and Polars eager (raising allowed) every cell gets generated argument frames with forced special classes (null, NaN/inf where documented, zero, negatives, domain boundaries, ties, empty string, all-null, single row) and is compared with a reference function per method; failures are collected per cell, never stop-at-first.",
        "note": "Trusted: the reference table vp/methods.py (numpy / docstring semantics; acceptable sets where the documentation leaves a choice), vp.cmp. Null operands are generated only where a docstring states a null rule; comparisons/logic/concat never get nulls (documented caveat). PostgreSQL cells run on the SQLite surrogate with the library's SQLite helper functions.",
    },
    "C06": {
        "technique": "differential property-based testing of the builder: chained construction vs step-by-step construction on materialised intermediate results, incl. acceptance equivalence",
        "text": "Step lists of 2-7 unary steps over a table (new column names from a 2-name pool per type so consecutive extends overwrite and read each other's outputs; order_rows with and without limit; select/drop collapsing candidates), optionally ending in an injected ill-formed step or a join with check_all_common_keys_in_equi_spec=True, are built (a) chained, where the builder may merge extends, collapse selections and drop order_rows, and (b) step by step on fresh table descriptions of materialised results, where no simplification can fire. Results must be equal and both builders must accept/reject the same step.",
        "note": "Trusted: the Pandas executor for both sides (same engine, so conventions cancel), vp.cmp. Evidence counts how often a simplification actually fired.",
    },
    "C07": {
        "technique": "differential property-based testing of composition: five composition routes vs sequential application; associativity on triples; dom/cod predicates",
        "text": "Triples (a, b, c) are generated so that b is built against a's output schema and c against b's; a >> b, b.act_on(a), b.replace_leaves, b.eval(map of pipelines) and DataOpArrow composition are each evaluated on Pandas and compared with b(a(data)); (a>>b)>>c and a>>(b>>c) are compared with c(b(a(data))); dom()/cod() must list the composed arrow's input and sorted output columns and transform() must return exactly the cod columns.",
        "note": "Trusted: Pandas executor, vp.cmp, vp.schema (to generate b against a's output). Structural equality of differently grouped compositions is NOT demanded (the builder merges extends depending on grouping; the property promises equal behaviour).",
    },
    "C09": {
        "technique": "model-based property testing with cardinality predicates and a reference aggregate per partition on Pandas, SQLite and Polars",
        "text": "prefix program -> target (grouped project / ungrouped project / partitioned windowed extend with NULL-able keys) -> suffix that may overwrite or drop every aggregate; per engine the target's input is that engine's own evaluation of the prefix; grouped: rows == distinct key tuples (NULL its own group) and key multiset equal; ungrouped: exactly one row even on empty input and after overwriting; windowed: row count preserved and every row's value equals the reference aggregate over its partition.",
        "note": "Trusted: vp.ref.agg, vp.cmp, each engine's evaluation of the prefix as the target's input.",
    },
    "C11": {
        "technique": "metamorphic property-based testing: single-point spec mutations; every pair that compares equal is checked for identical SQL in five dialects and identical results",
        "text": "Pairs (p, q) where q is p with one point mutation out of 26 kinds (literal value/type incl. int/bool, operator, method, column reference, jointype, join keys incl. key order and re-pairing, reverse, limit, partition_by/order_by, window flag partition_by=1 vs none, n-ary and/or chains, is_in/mapv collection elements, concat id/labels, record-map cell/key, list orders, table column list, targets) or an independent rebuild; == must be reflexive, symmetric and consistent with !=; whenever differing specs compare equal, to_sql must be identical for SQLite, PostgreSQL, BigQuery, Spark and MySQL and Pandas results identical on three data sets. A dedicated campaign mutates record maps.",
        "note": "Trusted: the spec mutator in vp/checks/c11.py. Only the forward direction (equal => same behaviour) is required.",
    },
    "C12": {
        "technique": "round-trip property testing: print (4 text forms) -> eval_da_ops -> ==, text fixpoint and identical Pandas result; pickle round trip",
        "text": "Generated DAGs (text and Term-object expression construction) plus an enrichment extend with printing-sensitive forms ((-x)**2, (-3)**2, x**-1, nested unary minus, subtraction chains, string literals with quotes/backslashes/newlines/unicode in ==, %+%, is_in lists, mapv dicts) are printed by to_python (plain and black-formatted), repr and str; each text must evaluate back to an equal pipeline, print identically again and compute the same result; pickling likewise.",
        "note": "Trusted: eval_da_ops as the documented reader, Pandas executor for the semantic half, vp.cmp.",
    },
    "C16": {
        "engine": "sqlite-surrogate",
        "technique": "differential property-based testing against a hand-written native SQL join on SQLite (cross-checked with a nested-loop reference) for five executors",
        "text": "Two generated tables (0-6 rows, 0-2 key pairs with same or different names, key values from a 3-value pool plus NULL, shared non-key columns with NULLs, private columns) are joined inner/left/right/full/cross directly or through sub-pipelines; Pandas, Polars eager and lazy, SQLite-dialect SQL (emulated RIGHT/FULL) and PostgreSQL-dialect SQL on the surrogate must each return the rows of the native SQLite join and the declared columns. Engines inside the regions of two recorded SQLite FULL-join-emulation findings are skipped there and counted.",
        "note": "Trusted: SQLite 3.40.1 native joins as 'the corresponding standard SQL join', vp.ref.natural_join (must agree with SQLite on every case, else harness error), vp.cmp.",
    },
    "C26": {
        "technique": "labelled-by-construction property testing: exhaustive rule x prefix-tail x {violating, conforming} cells, Hypothesis inside each cell",
        "text": "21 construction rules from the property text, each with a violating and a conforming step constructor, are applied on top of random prefixes forced to end in one of 8 tail kinds (incl. tails the builder simplifies away: order_rows without limit, select/drop columns, mergeable extends); a violating step must raise at build time, a conforming one must return a pipeline with the predicted column set. 'Unknown' columns prefer names removed earlier in the prefix. Failures are collected per cell.",
        "note": "Trusted: the per-rule constructors and vp.schema's column prediction. Any exception type counts as a rejection. The method-call half of 'non-aggregating expression' is a recorded open finding (F65) and not generated while open.",
    },
    "C27": {
        "technique": "model-based property testing: every window function evaluated per ordered partition by a naive reference and compared on Pandas, SQLite and Polars",
        "text": "One generated table (NULL-able partition columns, 1-3 order columns made total by a unique id, any subset reversed) and one windowed extend with 1-3 functions from {cumsum, cummax, cummin, cumprod, _row_number, shift(+-k), rank, first, last, ffill, bfill} or {sum, mean, min, max, count, size, _size, median, nunique, std, var}; the reference sorts each partition in the declared order and evaluates the documented meaning; Pandas must match always, SQLite for catalogue-'y' functions, Polars whenever it returns.",
        "note": "Trusted: vp.ref.window_values / vp.ref.agg, vp.cmp. Cumulative functions, rank, first, last get non-null arguments (NULL behaviour undocumented); cumcount is not generated (recorded finding F53).",
    },
    "C08": {
        "engine": "sqlite-surrogate",
        "technique": "property-based testing with a validity predicate: returned column set (and order after select_columns) equals the declared columns on five executors",
        "text": "Generated DAGs biased to column-changing steps, empty inputs, projects and windows are run on Pandas, Polars eager+lazy, SQLite SQL and PostgreSQL-dialect SQL (surrogate); each returned frame must have exactly set(ops.column_names), no duplicates, and the select_columns order where that is the last column-defining step.",
        "note": "Trusted: nothing beyond the engines themselves (the oracle is the pipeline's own declaration). An engine that raises contributes nothing here (judged by C01/C03). PostgreSQL via the SQLite surrogate.",
    },
    "C10": {
        "technique": "metamorphic property-based testing: perturb unreported input columns; rebuild the pipeline narrowed to the reported columns (independent spec-level liveness analysis)",
        "text": "For generated DAGs, columns that columns_used() does not report are overwritten with fresh values and with nulls: the Pandas and the SQLite result must not change. The program is then rebuilt from its spec with tables restricted to the reported columns (dead assignments removed by an independent liveness analysis, pure column lists trimmed) and must build and give the same result. columns_used() must also be a subset of the declared columns, repeatable and unchanged by to_sql().",
        "note": "Trusted: the spec-level liveness analysis in vp/checks/c10.py (an independent model of which columns matter), vp.cmp. Programs containing convert_records are perturbed but not narrowed.",
    },
    "C13": {
        "technique": "grammar-based property testing: generated expression texts evaluated by the DSL vs CPython eval on a common domain, plus print/parse round trip",
        "text": "Expression texts are built by construction from a typed, layered grammar mirroring Python's precedence levels (or/and/not/comparisons incl. chains/+ -/* / // %/unary/**/atoms, redundant parentheses, whitespace, method calls); each accepted text is evaluated through extend() on an 8-row frame and compared row-wise with CPython's eval wherever both define the operators identically; the parsed tree must survive print -> parse with is_equal and identical text.",
        "note": "Trusted: CPython as reference evaluator; the common-domain filter (no division by zero, no complex/non-finite intermediates, logical connectives on bools only). Parser rejections are allowed and counted.",
    },
    "C04": {
        "engine": "sqlite-surrogate",
        "technique": "metamorphic property-based testing: the same generated pipeline under every SQLFormatOptions / extend-merge / dialect variant must return the same table",
        "text": "Metamorphic exploration: generated DAGs biased to shared sub-pipelines under two consumers and chains of extends are translated under 16 (quick) or 288 (thorough) variants of use_with x use_cte_elim x annotate x initial_commas x sql_indent x allow_extend_merges x {SQLite, SQLite with CTE elimination enabled, PostgreSQL dialect}; every variant is executed on SQLite and compared with the un-optimised baseline of its dialect and across dialects; to_sql must also be repeatable. Evidence counts how often CTE elimination / SQL-level merging actually fired.",
        "note": "Trusted: SQLite 3.40 as executor of all three dialect configurations (PostgreSQL text on a surrogate), vp.cmp. Three campaigns: all 16 variants on general DAGs, a CTE-elimination focus (diamonds whose consumers are twins or ask the shared node for complementary column subsets; PostgreSQL-dialect variants) and an extend-merge focus (row-wise extend directly followed by a window ordered by what it assigned; plain SQLite variants). SQLite resource-limit errors (parser stack depth) are inconclusive.",
    },
    "C14": {
        "engine": "sqlite-surrogate",
        "technique": "property-based fuzzing of 38 text positions x 5 dialects: execution round trip on SQLite + dialect tokenisers compared token-by-token with a placeholder query",
        "text": "Hostile strings (quotes, backslashes, comment markers, line breaks, percent signs, unicode, emoji) are placed at 19 positions where user text enters SQL (literals, is_in/mapv/coalesce arguments, column/table names, concat_rows labels and id column, record-map entries/keys), each with and without annotation comments, for the SQLite, PostgreSQL, BigQuery, Spark and MySQL dialects. SQLite and PostgreSQL text is executed (value/name must read back exactly, nothing else may change); all dialects are tokenised by dialect-specific lexers and the token skeleton must equal that of a harmless placeholder. Thorough tier adds a real local Spark engine.",
        "note": "Trusted: the four tokenisers in vp/lexers.py (self-tested on hand-written samples; the Spark one cross-validated against Spark 4.2), SQLite as executor (PostgreSQL text on the surrogate). BigQuery/MySQL verdicts rest on the tokenisers only. Names containing the dialect's identifier quote are a documented precondition (clean rejection accepted).",
    },
    "C15": {
        "technique": "metamorphic property-based testing: injective renaming of all table/column names into internal scratch names harvested from the sources, SQL keywords, spaced names",
        "text": "Each generated DAG is evaluated as is and after renaming every table and column (incl. created columns and record-map columns) into a pool dominated by names the executors / SQL generator use internally (harvested from the source files at run time, plus '<column><join suffix>' collisions), SQL keywords, mixed case and names with spaces; on Pandas, Polars and SQLite the result must be the renamed original result, and nothing may fail only after renaming. A second campaign uses ordinary names only (so every engine is compared on every case) on programs biased to steps whose meaning depends on a user-given column ORDER, half of them with new names that sort in the reverse alphabetical order of the old ones. Names listed in the one remaining recorded finding (Polars scratch names, F35) are excluded for Polars only.",
        "note": "Trusted: the spec-level renamer in vp/checks/c15.py. Each engine is compared with itself. Names never contain identifier quote characters and differ by more than letter case (SQLite identifiers are case-insensitive).",
    },
    "C17": {
        "technique": "round-trip and algebraic-law property testing of record maps on Pandas and Polars (inverse, compose, pipeline step, engine agreement)",
        "text": "Generated strict control tables (1-2 key columns, 1-3 value columns, 2-4 rows), record keys and complete-block data are transformed to the other form and back with inverse(), composed with further maps (compose / >>) and compared with sequential application, run as a convert_records pipeline step, and run on Polars; every result must agree (column set + row multiset).",
        "note": "Trusted: vp.cmp and the harness-side construction of 'the other form'. compose() rejections are allowed and counted; null cell values run in a separate counted-only campaign (undocumented).",
    },
    "C18": {
        "technique": "metamorphic property-based testing (row permutations, non-default Pandas indexes) + sortedness / limit-prefix validity predicates",
        "text": "Generated DAGs with totalised window orders are evaluated on the original input and on a row-permuted, re-indexed copy (shuffled ints, string labels, duplicate labels, descending) on Pandas, Polars and SQLite: the multiset of rows must not change. A final order_rows is checked with a sortedness predicate (NULL placement not judged) and, with limit, against the un-limited program: right count, sub-multiset, no excluded row strictly before an included one.",
        "note": "Trusted: vp.cmp order predicates; the generator's key tracking that makes window orders total. Each engine is compared with itself.",
    },
    "C19": {
        "technique": "property-based testing with deep before/after snapshots of caller frames and exact repeat-evaluation comparison over all entry points",
        "text": "Generated DAGs are evaluated on Pandas frames with non-default indexes and on Polars frames through eval / transform / >> / act_on / DataOpArrow.transform / ex; every input frame is snapshotted (values, dtypes, columns, index incl. type and name; Polars schema + rows) before and after, with pandas.testing.assert_frame_equal as second opinion, and a second evaluation must give the same table.",
        "note": "Trusted: the snapshot functions. Repeatability is compared as a multiset unless the pipeline ends in order_rows (relational results have no row order; Polars group_by order varies between runs).",
    },
    "C20": {
        "engine": "hypothesis-stateful",
        "technique": "stateful model-based testing: RuleBasedStateMachine driving DataModelSpace and DBSpace(SQLite) against dict models",
        "text": "Random histories (<=25 steps) of insert/execute/remove/describe/retrieve/keys with user keys, automatic keys and keys equal to the automatic names are applied to the in-memory and the SQLite-backed data space and to a dict model; after every step keys(), retrieve() and describe() must match the model, illegal operations (overwrite without permission, missing keys, pipelines over removed entries) must raise and change nothing, automatic keys must be fresh.",
        "note": "Trusted: the dict model and the Pandas executor on a five-pipeline null-free family (used to compute expected execute() results). Copy semantics and exception types are not checked (undocumented).",
    },
    "C21": {
        "technique": "model-based property testing of each solution helper against plain-Python references (scipy rankdata as second opinion) on Pandas and SQLite",
        "text": "For rank_to_average, last_observed_carried_forward, replicate_rows_query and def_multi_column_map, generated valid inputs (ties, partitions, leading nulls, counts at power-of-two boundaries, unmapped values, empty tables) are evaluated on Pandas and on SQLite and compared with obviously-correct loop references. One open finding (single-column def_multi_column_map) is excluded by construction.",
        "note": "Trusted: the reference loops in vp/checks/c21.py (rank cross-checked against scipy.stats.rankdata), vp.cmp, SQLite. Null order values / null partition keys / tied LOCF orders are outside the documented domain and not generated.",
    },
    "C22": {
        "technique": "model-based property testing: generated specs x calls against an independent reference model of the documented schema contract",
        "text": "Generated schema specifications (types, type sets, example values, sets of examples, nested column dicts, arg_specs=None) and calls (positional/keyword/omitted; scalars, numpy scalars, nulls, Pandas and Polars frames with missing/extra/wrong-typed/null/empty columns) are checked against a reference model: TypeError iff the model says violation, result identity otherwise, never an exception with the switch off.",
        "note": "Trusted: the reference model in vp/checks/c22.py, derived from the docstrings/README. Subclass instances (bool for int, numpy.float64 for float) and nulls passed directly as arguments are left unjudged because the documentation is silent.",
    },
    "C23": {
        "technique": "property-based testing against an independent union-find reference over generated edge lists (direct call and pipeline routes)",
        "text": "Generated edge lists (ints near 2^62, strings, floats incl. inf, tuples, mixed int/float; random pairs, adversarially ordered chains/trees, self loops, repeats) are labelled by connected_components through lists, tuples, numpy arrays, Series and the Pandas pipeline methods, and compared with an independent union-find: label == least vertex of the component, same label iff same component.",
        "note": "Trusted: the union-find reference in vp/checks/c23.py, run on the values as the code sees them after numpy/pandas conversion. Vertices are mutually orderable, no NaN/None.",
    },
    "C25": {
        "engine": "hypothesis-stateful",
        "technique": "model-based history testing of ResultCache against a dict model + metamorphic single-point variants of cache keys",
        "text": "Histories of store/get/mutate-returned-copy/mutate-caller-frame over near-miss data maps are checked against a dict model (hit iff same dialect, SQL and content; returned frame equal; mutations never leak), and single-point variants of a data map (cell, column name, column order, row add/remove/permute, table name, one SQL character, dialect) must never share make_cache_key with the original.",
        "note": "Trusted: the dict model and canonical-content classifier in vp/checks/c25.py. Pairs that differ only in dtype / None-vs-NaN / index labels are left unjudged (the property lists values, names, shape and row order only).",
    },
    "C24": {
        "engine": "hypothesis-stateful",
        "technique": "stateful model-based testing (Hypothesis RuleBasedStateMachine vs list+set model) + stateless algebraic checks of ordered_* helpers",
        "text": "Random operation histories (12 rule kinds, 8-value pool, <=40 steps) are executed on OrderedSet and on a list+set reference model; membership, length, equality with plain sets and iteration order are compared after every step. Exploration only: bounded histories, no proof of absence.",
        "note": "Trusted: the list+set model in vp/checks/c24.py. Iteration order of the collections.abc mixin operators (& | - ^) is deliberately not checked (only their element set).",
    },
}

NOT_APPLICABLE = {f"C{i:02d}": _PENDING for i in range(1, 28) if f"C{i:02d}" not in CHECKS}
