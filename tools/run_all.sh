#!/bin/sh
# usage: tools/run_all.sh [seed] [tier]  -- run every claimed check, print one line per check
SEED=${1:-1}; TIER=${2:-quick}
cd /verif
for p in $(/venv/bin/python -c "import json; print(' '.join(c['property_id'] for c in json.load(open('MANIFEST.json'))['checks']))"); do
  T0=$(date +%s)
  OUT=$(VERIF_SEED=$SEED PYTHONHASHSEED=0 /venv/bin/python -m vp.run $p --tier $TIER 2>&1); RC=$?
  echo "$p exit=$RC $(( $(date +%s) - T0 ))s known=$(echo "$OUT" | grep -c '^KNOWN-FINDING') viol=$(echo "$OUT" | grep -c '^VIOLATION') $(echo "$OUT" | grep -v '^KNOWN' | grep '^\[\|HARNESS' | head -1 | cut -c1-160)"
done
