#!/bin/sh
# Offline setup: hypothesis is needed in /venv (already present on this image; installed from the wheelhouse otherwise).
set -e
cd "$(dirname "$0")"
/venv/bin/python -c "import hypothesis" 2>/dev/null || \
  /venv/bin/pip install --no-index --find-links /opt/veriftools/wheels hypothesis
/venv/bin/python -c "import jsonschema" 2>/dev/null || \
  /venv/bin/pip install --no-index --find-links /opt/veriftools/wheels jsonschema 2>/dev/null || true
mkdir -p evidence replays
/venv/bin/python -c "import data_algebra, hypothesis; print('setup ok', data_algebra.__file__, hypothesis.__version__)"
