import sys, os, time, warnings
warnings.filterwarnings("ignore")
from vp import common
from vp.checks import c14
ENTRIES = [
 {"id": "X1", "property": "C14", "status": "open", "title": "concat_rows labels re-parsed", "signature": {"region": "concat_label_reparse"}, "flags": ["concat_label_reparse"], "replay": "replays/C14/open-concat-label-reparse.json"},
 {"id": "X2", "property": "C14", "status": "open", "title": "bigquery backslash", "signature": {"region": "backslash_bigquery"}, "flags": ["backslash_bigquery"], "replay": "replays/C14/open-backslash-bigquery.json"},
 {"id": "X3", "property": "C14", "status": "open", "title": "bigquery dquote", "signature": {"region": "dquote_bigquery"}, "flags": ["dquote_bigquery"], "replay": "replays/C14/open-dquote-bigquery.json"},
 {"id": "X4", "property": "C14", "status": "open", "title": "bigquery linebreak", "signature": {"region": "linebreak_bigquery"}, "flags": ["linebreak_bigquery"], "replay": "replays/C14/open-linebreak-bigquery.json"},
 {"id": "X5", "property": "C14", "status": "open", "title": "spark backslash", "signature": {"region": "backslash_spark"}, "flags": ["backslash_spark"], "replay": "replays/C14/open-backslash-spark.json"},
 {"id": "X6", "property": "C14", "status": "open", "title": "mysql backslash", "signature": {"region": "backslash_mysql"}, "flags": ["backslash_mysql"], "replay": "replays/C14/open-backslash-mysql.json"},
]
tier = sys.argv[1] if len(sys.argv) > 1 else "quick"
skip = set(sys.argv[2].split(",")) if len(sys.argv) > 2 else set()
seed = int(os.environ.get("VERIF_SEED", "1"))
ctx = common.Ctx("C14", tier, seed)
ctx.findings.open = [e for e in ENTRIES if e["id"] not in skip]
t = time.time()
c14.run(ctx)
print("wall", round(time.time() - t, 1), "evals", ctx.ev.evaluations, "distinct_nt", len(ctx.ev.nontrivial_hashes))
print({k: v for k, v in sorted(ctx.ev.counters.items())})
print({k: v for k, v in sorted(ctx.ev.features.items()) if k.startswith("class:") or k.startswith("outcome")})
sys.exit(common.finish(ctx))
