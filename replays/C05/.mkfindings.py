"""scratch helper (deleted before hand-over): turn the VIOLATION replays of the last run into stable-named
replay files + PROPOSED_FINDINGS.json entries, using the titles below."""
import glob, json, os, re, sys
D = os.path.dirname(os.path.abspath(__file__))
TITLES = [
  # (match dict on signature, signature to record (keys), title, classification note)
  ({"op":"maximum","backend":"sqlite","argclass":"null"}, ["op","op_class","backend","argclass"], "SQL (SQLite) `maximum` returns the non-null argument when the other is null; docstring: 'propogate missing'", "genuine defect: _db_maximum_expr has the `IS NULL OR` guards that belong to fmax"),
  ({"op":"maximum","backend":"pg","argclass":"null"}, ["op","op_class","backend","argclass"], "SQL (PostgreSQL dialect) `maximum` returns the non-null argument when the other is null; docstring: 'propogate missing'", "genuine defect, same formatter as SQLite (sql_model._db_maximum_expr)"),
  ({"op":"minimum","backend":"sqlite","argclass":"null"}, ["op","op_class","backend","argclass"], "SQL (SQLite) `minimum` returns the non-null argument when the other is null; docstring: 'propogate missing'", "genuine defect: sql_model._db_minimum_expr"),
  ({"op":"minimum","backend":"pg","argclass":"null"}, ["op","op_class","backend","argclass"], "SQL (PostgreSQL dialect) `minimum` returns the non-null argument when the other is null; docstring: 'propogate missing'", "genuine defect: sql_model._db_minimum_expr"),
  ({"op":"fmax","backend":"sqlite","argclass":"null"}, ["op","op_class","backend","argclass"], "SQL (SQLite) `fmax` is NULL when one argument is null; docstring: 'ignore missing'", "genuine defect: sql_model._db_fmax_expr lacks the null guards (swapped with maximum)"),
  ({"op":"fmax","backend":"pg","argclass":"null"}, ["op","op_class","backend","argclass"], "SQL (PostgreSQL dialect) `fmax` is NULL when one argument is null; docstring: 'ignore missing'", "genuine defect: sql_model._db_fmax_expr"),
  ({"op":"fmin","backend":"sqlite","argclass":"null"}, ["op","op_class","backend","argclass"], "SQL (SQLite) `fmin` is NULL when one argument is null; docstring: 'ignore missing'", "genuine defect: sql_model._db_fmin_expr"),
  ({"op":"fmin","backend":"pg","argclass":"null"}, ["op","op_class","backend","argclass"], "SQL (PostgreSQL dialect) `fmin` is NULL when one argument is null; docstring: 'ignore missing'", "genuine defect: sql_model._db_fmin_expr"),
  ({"op":"maximum","backend":"polars","argclass":"null"}, ["op","op_class","backend","argclass"], "Polars `maximum` ignores a null argument (pl.max_horizontal); docstring: 'propogate missing'", "genuine deviation of the Polars executor"),
  ({"op":"minimum","backend":"polars","argclass":"null"}, ["op","op_class","backend","argclass"], "Polars `minimum` ignores a null argument (pl.min_horizontal); docstring: 'propogate missing'", "genuine deviation of the Polars executor"),
  ({"op":"coalesce","backend":"pandas","shape":"lit_lit","kind":"raised"}, ["op","op_class","backend","shape","kind"], "Pandas `coalesce` of two literals raises ValueError ('at least one argument must be a Pandas series'); SQL and Polars return the first literal", "genuine defect (edge): pandas_base._coalesce"),
  ({"op":"if_else","backend":"pandas","shape":"lit","kind":"raised"}, ["op","op_class","backend","shape","kind","has_null"], "Pandas `if_else(None, 1, 2)` (the docstring's own example: int literals, null condition) raises TypeError instead of giving None", "genuine defect: pandas_base._if_else_expr assigns None into the int array produced by numpy.where"),
  ({"op":"trimstr","backend":"sqlite","shape":"start_pos"}, ["op","op_class","backend","shape"], "SQL (SQLite) `trimstr(start, stop)` with start > 0 returns `stop` characters (SUBSTR length) instead of the slice [start, stop)", "genuine defect: sql_model._trimstr passes stop as the SUBSTR length"),
  ({"op":"trimstr","backend":"pg","shape":"start_pos"}, ["op","op_class","backend","shape"], "SQL (PostgreSQL dialect) `trimstr(start, stop)` with start > 0 returns `stop` characters instead of the slice [start, stop)", "genuine defect: sql_model._trimstr"),
  ({"op":"nunique","op_class":"g","backend":"polars"}, ["op","op_class","backend","has_null"], "Polars windowed `nunique` counts null as a value (n_unique); Pandas and SQL COUNT(DISTINCT) do not", "deviation of the Polars executor from both catalogued backends (docstring silent on nulls)"),
  ({"op":"nunique","op_class":"p","backend":"polars"}, ["op","op_class","backend","has_null"], "Polars project `nunique` counts null as a value (n_unique); Pandas and SQL COUNT(DISTINCT) do not", "deviation of the Polars executor from both catalogued backends (docstring silent on nulls)"),
  ({"op":"cumcount","op_class":"w","backend":"pandas"}, ["op","op_class","backend"], "Pandas `cumcount` is the 0-based row position in the partition (GroupBy.cumcount) regardless of nulls; docstring: 'cumulative number of non-NA cells' (what SQL COUNT(z) OVER computes)", "genuine defect per docstring; the catalogue itself marks the SQL backends 'w' (differs from Pandas) for this row"),
]
def main():
    entries = []
    pj = os.path.join(D, "PROPOSED_FINDINGS.json")
    used = set()
    docs = []
    for f in sorted(glob.glob(os.path.join(D, "*.json"))):
        if os.path.basename(f) == "PROPOSED_FINDINGS.json":
            continue
        d = json.load(open(f))
        sys.path.insert(0, os.path.dirname(os.path.dirname(D)))
        from vp.checks import c05
        from vp.common import canon
        fl = c05.replay(d.get("check"), d["case"])
        if fl is None:
            print("replay passes now:", f); continue
        if fl.sig != d["signature"]:
            d["signature"] = fl.sig; d["observed"] = fl.msg
            open(f, "w").write(canon(d) + "\n")
        docs.append((f, d))
    n = 0
    unmatched = []
    for f, d in docs:
        sig = d["signature"]
        hit = None
        for i, (m, keys, title, note) in enumerate(TITLES):
            if all(sig.get(k) == v for k, v in m.items()):
                hit = i
                break
        if hit is None:
            unmatched.append((os.path.basename(f), sig, d["observed"][:200]))
            continue
        if hit in used:
            if not os.path.basename(f).startswith("open-"):
                os.remove(f)
            continue
        used.add(hit)
        m, keys, title, note = TITLES[hit]
        name = "open-" + "-".join(re.sub(r"[^A-Za-z0-9]+", "", str(sig.get(k))) for k in keys) + ".json"
        dst = os.path.join(D, name)
        if f != dst:
            os.replace(f, dst)
        entries.append((hit, {"id": None, "property": "C05", "status": "open", "title": title,
                        "signature": {k: sig[k] for k in keys}, "replay": "replays/C05/" + name, "note": note}))
    entries.sort(key=lambda t: t[0])
    out = []
    for j, (_, e) in enumerate(entries):
        e["id"] = f"C05-{j+1:02d}"
        out.append(e)
    json.dump(out, open(pj, "w"), indent=1)
    print(len(out), "entries;", "unmatched:")
    for u in unmatched:
        print("  ", u)
    missing = [TITLES[i][0] for i in range(len(TITLES)) if i not in used]
    if missing:
        print("titles without replay:", missing)
main()
